//! Side-effect-free check steps (DESIGN §2.1 `Probe`): join laws, merge-vs-ops, redundancy enumeration,
//! validate_op / validate_merge verdicts, reset_remove, causal replay, serde round trips.

use crate::engine::{guard, has_pending, Res, World, UNIV};
use crate::model::{self, AInfo, AOp, Leaf};
use crate::sut::Sut;
use crate::types::*;
use std::collections::{BTreeMap, BTreeSet};

fn fail<T>(step: usize, clause: &str, detail: String) -> Result<T, Failure> {
    Err(Failure { clause: clause.to_string(), step, detail })
}

/// Ok(true)/Ok(false) expected from validate_op by the property (C16); None = no expectation
pub fn expect_validate_ok(family: &Family, aops: &[AOp], k: KSet, ix: usize, cur_obs: Option<&Obs>) -> Option<bool> {
    let o = &aops[ix];
    if let (Family::Lww, Some(Obs::Lww { val, marker }), AInfo::Lww { v, marker: m }) = (family, cur_obs, &o.info) {
        // a marker clash is judged against what the replica holds right now
        return Some(!(marker == m && val != v));
    }
    match family {
        // MVReg needs no delivery order at all: it accepts everything
        Family::Dotted(Shape::Reg) => Some(true),
        Family::Dotted(_) | Family::VClock | Family::List => match o.dot {
            None => Some(true),
            Some(n) => {
                let have = clk_get(&model::clock_of(aops, k), o.author);
                Some(n <= have + 1)
            }
        },
        Family::GCounter | Family::PNCounter | Family::GSet | Family::MaxReg | Family::MinReg | Family::GList => Some(true),
        Family::Lww => {
            if let (Some(Obs::Lww { val, marker }), AInfo::Lww { v, marker: m }) = (model::expect(family, aops, k, UNIV), &o.info) {
                Some(!(marker == *m && val != *v))
            } else {
                None
            }
        }
        Family::Merkle => {
            if let (Some(Obs::Merkle { notes, .. }), AInfo::Merkle { children, .. }) = (model::expect(family, aops, k, UNIV), &o.info) {
                // visible hashes are the keys of the dag rendered in the note
                let dag = &notes[0];
                Some(children.iter().all(|c| dag.contains(&format!("\"{}\": (", c))))
            } else {
                None
            }
        }
    }
}

/// When validate_op rightly reports a gap, the payload must name it: the actor whose updates would be skipped
/// and the range of its missing counters (List, Orswot, Map, VClock), or a child that is really missing
/// (MerkleReg). Returns a description of what is wrong with the payload, if anything.
pub fn check_gap_payload(family: &Family, aops: &[AOp], k: KSet, ix: usize, v: &Verdict) -> Option<String> {
    let info = match v {
        Verdict::Err { info, .. } => info,
        _ => return None,
    };
    let o = &aops[ix];
    match family {
        Family::Dotted(_) | Family::VClock | Family::List => {
            let n = o.dot?;
            let have = clk_get(&model::clock_of(aops, k), o.author);
            let want = format!("actor: {}, counter_range: {}..{}", o.author, have + 1, n);
            if info.contains("DotRange") && !info.contains(&want) {
                return Some(format!("the reported gap is {} but the missing updates are {}", info, want));
            }
            None
        }
        Family::Merkle => {
            if let (Some(Obs::Merkle { notes, .. }), AInfo::Merkle { children, .. }) = (model::expect(family, aops, k, UNIV), &o.info) {
                let dag = &notes[0];
                let missing: Vec<&String> = children.iter().filter(|c| !dag.contains(&format!("\"{}\": (", c))).collect();
                // the payload prints the hash as a byte array; compare through the first 8 bytes rendered as hex
                let reported: Option<String> = info.find('[').and_then(|i| info[i + 1..].find(']').map(|j| info[i + 1..i + 1 + j].to_string())).map(|body| {
                    body.split(',').take(8).filter_map(|x| x.trim().parse::<u8>().ok()).map(|b| format!("{:02x}", b)).collect::<String>()
                });
                if let Some(r) = reported {
                    if !missing.iter().any(|m| **m == r) {
                        return Some(format!("MissingChild names {} which is not one of the missing children {:?}", r, missing));
                    }
                }
            }
            None
        }
        _ => None,
    }
}

pub fn check_validate_merge_correct<S: Sut>(w: &World<S>, a: &S, b: &S, what: &str) -> Result<(), Failure> {
    for (x, y, dir) in [(a, b, "a.validate_merge(b)"), (b, a, "b.validate_merge(a)")] {
        match guard(|| x.validate_merge(y)) {
            Ok(Verdict::Ok) => {}
            Ok(v) => {
                return fail(
                    w.step,
                    "vmerge.correct",
                    format!("{}: {} = {} although every actor was confined to one replica\n  a: {}\n  b: {}", what, dir, v.show(), dq(a.dbg()), dq(b.dbg())),
                )
            }
            Err(p) => return fail(w.step, "vmerge.correct", format!("{}: validate_merge panicked: {}", what, p)),
        }
    }
    Ok(())
}

fn obs_of<S: Sut>(w: &World<S>, s: &S, clause: &str) -> Result<Obs, Failure> {
    match guard(|| s.obs()) {
        Ok(o) => Ok(o),
        Err(p) => fail(w.step, clause, format!("reading a merged state panicked: {}", p)),
    }
}

fn merged<S: Sut>(w: &World<S>, a: &S, b: &S, clause: &str) -> Result<S, Failure> {
    let mut x = a.clone();
    let y = b.clone();
    match guard(move || {
        x.merge(y);
        x
    }) {
        Ok(x) => Ok(x),
        Err(p) => fail(w.step, clause, format!("merge panicked: {}", p)),
    }
}

fn same<S: Sut>(w: &World<S>, a: &S, b: &S, clause: &str, what: &str) -> Result<(), Failure> {
    match guard(|| a.same(b)) {
        Ok(true) => Ok(()),
        Ok(false) => fail(w.step, clause, format!("{}: states are not ==\n  left : {}\n  right: {}", what, dq(a.dbg()), dq(b.dbg()))),
        Err(p) => fail(w.step, clause, format!("{}: == panicked: {}", what, p)),
    }
}

/// a fresh replica fed the ops of `k` in generation order (a linear extension of causality)
pub fn replay_fresh<S: Sut>(w: &World<S>, k: KSet, clause: &str) -> Result<S, Failure> {
    let mut s = S::new();
    for (i, o) in w.ops.iter().enumerate() {
        if has(k, i) {
            let op = o.op.clone();
            if let Err(p) = guard(|| s.apply(op)) {
                return fail(w.step, clause, format!("fresh replica: apply panicked: {}", p));
            }
        }
    }
    Ok(s)
}

pub fn run_probe<S: Sut>(w: &mut World<S>, p: &Probe) -> Res {
    if matches!(p, Probe::Laws { .. } | Probe::MergeVsOps { .. } | Probe::Redundancy { .. } | Probe::ValidateMerge { .. }) && S::can_merge() {
        // these probes merge states: the history now contains a merge (trigger predicates look at this)
        w.merged = true;
    }
    match p {
        Probe::Laws { a, b, c } => {
            if !S::can_merge() {
                return Ok(false);
            }
            let (sa, ka) = match w.state_of(a) {
                Some((s, k)) => (s?, k),
                None => return Ok(false),
            };
            let (sb, kb) = match w.state_of(b) {
                Some((s, k)) => (s?, k),
                None => return Ok(false),
            };
            let (sc, kc) = match w.state_of(c) {
                Some((s, k)) => (s?, k),
                None => return Ok(false),
            };
            w.stats.probe_cases += 1;
            let ab = merged(w, &sa, &sb, "laws.commute")?;
            let ba = merged(w, &sb, &sa, "laws.commute")?;
            let (oab, oba) = (obs_of(w, &ab, "laws.commute")?, obs_of(w, &ba, "laws.commute")?);
            if oab.strip_nested() != oba.strip_nested() {
                return fail(w.step, "laws.commute", format!("a+b and b+a read differently\n  a: {}\n  b: {}\n  a+b: {}\n  b+a: {}", dq(sa.dbg()), dq(sb.dbg()), oab.show(), oba.show()));
            }
            let ab_c = merged(w, &ab, &sc, "laws.assoc")?;
            let bc = merged(w, &sb, &sc, "laws.assoc")?;
            let a_bc = merged(w, &sa, &bc, "laws.assoc")?;
            let (o1, o2) = (obs_of(w, &ab_c, "laws.assoc")?, obs_of(w, &a_bc, "laws.assoc")?);
            if o1.strip_nested() != o2.strip_nested() {
                return fail(
                    w.step,
                    "laws.assoc",
                    format!("(a+b)+c and a+(b+c) read differently\n  a: {}\n  b: {}\n  c: {}\n  (a+b)+c: {}\n  a+(b+c): {}", dq(sa.dbg()), dq(sb.dbg()), dq(sc.dbg()), o1.show(), o2.show()),
                );
            }
            let aa = merged(w, &sa, &sa, "laws.idem")?;
            let (oa, oaa) = (obs_of(w, &sa, "laws.idem")?, obs_of(w, &aa, "laws.idem")?);
            if oa != oaa {
                return fail(w.step, "laws.idem", format!("a+a reads differently from a\n  a: {}\n  a: {}\n  a+a: {}", dq(sa.dbg()), oa.show(), oaa.show()));
            }
            if w.cfg.on("laws.model") {
                if let Some(exp) = model::expect(&w.family, &w.aops, ka | kb | kc, UNIV) {
                    if exp != o1 {
                        return fail(w.step, "laws.model", format!("(a+b)+c differs from the model of the united knowledge\n  impl : {}\n  model: {}", o1.show(), exp.show()));
                    }
                }
            }
            if w.cfg.on("laws.eq") {
                same(w, &ab, &ba, "laws.eq", "a+b vs b+a")?;
                same(w, &ab_c, &a_bc, "laws.eq", "(a+b)+c vs a+(b+c)")?;
                same(w, &aa, &sa, "laws.eq", "a+a vs a")?;
            }
            Ok(true)
        }
        Probe::MergeVsOps { a, b } => {
            if !S::can_merge() {
                return Ok(false);
            }
            let (sa, ka) = match w.state_of(a) {
                Some((s, k)) => (s?, k),
                None => return Ok(false),
            };
            let (sb, kb) = match w.state_of(b) {
                Some((s, k)) => (s?, k),
                None => return Ok(false),
            };
            w.stats.probe_cases += 1;
            let m = merged(w, &sa, &sb, "mergevsops")?;
            let f = replay_fresh(w, ka | kb, "mergevsops")?;
            let (om, of) = (obs_of(w, &m, "mergevsops")?, obs_of(w, &f, "mergevsops")?);
            if om.strip_nested() != of.strip_nested() {
                return fail(
                    w.step,
                    "mergevsops",
                    format!("merge of two replicas reads differently from a replica that applied the union of their ops\n  a: {}\n  b: {}\n  merged : {}\n  op-fed : {}", dq(sa.dbg()), dq(sb.dbg()), om.show(), of.show()),
                );
            }
            if w.cfg.on("mergevsops.eq") && w.causally_closed(ka | kb) {
                same(w, &m, &f, "mergevsops.eq", "merge vs op-fed replica")?;
            }
            Ok(true)
        }
        Probe::CausalReplay { node } => {
            if !w.up(*node) {
                return Ok(false);
            }
            let k = w.nodes[*node].k;
            let st = w.nodes[*node].state.clone().unwrap();
            w.stats.probe_cases += 1;
            let f = replay_fresh(w, k, "replay.obs")?;
            let (o1, o2) = (obs_of(w, &st, "replay.obs")?, obs_of(w, &f, "replay.obs")?);
            if o1.strip_nested() != o2.strip_nested() {
                return fail(
                    w.step,
                    "replay.obs",
                    format!("node {} K={:x} reads differently from a replica that received the same ops in causal order\n  node  : {}\n  causal: {}", node, k, o1.show(), o2.show()),
                );
            }
            if w.cfg.on("replay.eq") && w.causally_closed(k) {
                same(w, &st, &f, "replay.eq", &format!("node {} vs causal replay of its knowledge", node))?;
            }
            if w.cfg.on("residue") && w.causally_closed(k) {
                let d = dq(st.dbg());
                if has_pending(&d) {
                    return fail(w.step, "residue", format!("node {} has learned everything its removes observed but still holds a pending remove\n  {}", node, d));
                }
            }
            Ok(true)
        }
        Probe::Redundancy { node } => {
            if !w.up(*node) {
                return Ok(false);
            }
            let k = w.nodes[*node].k;
            let st = w.nodes[*node].state.clone().unwrap();
            let o0 = obs_of(w, &st, "redundant.op")?;
            for i in 0..w.ops.len() {
                if !has(k, i) {
                    continue;
                }
                w.stats.probe_cases += 1;
                let mut c = st.clone();
                let op = w.ops[i].op.clone();
                let opd = S::op_dbg(&op);
                if let Err(p) = guard(|| c.apply(op)) {
                    return fail(w.step, "redundant.op", format!("re-applying {} panicked: {}", opd, p));
                }
                let o1 = obs_of(w, &c, "redundant.op")?;
                if o1 != o0 {
                    return fail(w.step, "redundant.op", format!("node {} K={:x}: re-applying the known op {} changes the reads\n  before: {}\n  after : {}", node, k, opd, o0.show(), o1.show()));
                }
                if w.cfg.on("redundant.eq") {
                    same(w, &c, &st, "redundant.eq", &format!("node {} after re-applying {}", node, opd))?;
                }
            }
            if S::can_merge() {
                let mut sources: Vec<(String, S)> = vec![];
                for (g, f) in w.flights.iter() {
                    if (f.k & !k) == 0 {
                        sources.push((format!("in-flight state {} of node {}", g, f.src), w_decode(w, &f.blob)?));
                    }
                }
                for (j, x) in w.nodes.iter().enumerate() {
                    if let Some((b, sk)) = &x.snap {
                        if (sk & !k) == 0 {
                            sources.push((format!("disk snapshot of node {}", j), w_decode(w, b)?));
                        }
                    }
                    if j != *node {
                        if let Some(s) = &x.state {
                            if (x.k & !k) == 0 {
                                sources.push((format!("lagging peer {}", j), s.clone()));
                            }
                        }
                    }
                }
                sources.push(("its own state".to_string(), st.clone()));
                for (what, s) in sources {
                    w.stats.probe_cases += 1;
                    let m = merged(w, &st, &s, "redundant.state")?;
                    let o1 = obs_of(w, &m, "redundant.state")?;
                    if o1 != o0 {
                        return fail(
                            w.step,
                            "redundant.state",
                            format!("node {} K={:x}: merging {} (knowledge already covered) changes the reads\n  before: {}\n  after : {}\n  merged in: {}", node, k, what, o0.show(), o1.show(), dq(s.dbg())),
                        );
                    }
                    if w.cfg.on("redundant.eq") {
                        same(w, &m, &st, "redundant.eq", &format!("node {} after merging {}", node, what))?;
                    }
                }
            }
            Ok(true)
        }
        Probe::Validate { node, tag } => {
            let ix = match w.tag_ix.get(tag) {
                Some(i) => *i,
                None => return Ok(false),
            };
            if !w.up(*node) {
                return Ok(false);
            }
            // FIFO premise of the property: the actor's earlier ops may or may not be known; the verdict
            // must say exactly whether something of that actor would be skipped
            let k = w.nodes[*node].k;
            let st = w.nodes[*node].state.as_ref().unwrap();
            let op = w.ops[ix].wire_op.clone();
            w.stats.probe_cases += 1;
            let v = guard(|| st.validate_op(&op));
            let exp = expect_validate_ok(&w.family, &w.aops, k, ix, w.nodes[*node].last_obs.as_ref());
            if let (Ok(vv), Some(false)) = (&v, exp) {
                if w.cfg.on("validate.payload") {
                    if let Some(why) = check_gap_payload(&w.family, &w.aops, k, ix, vv) {
                        return fail(w.step, "validate.payload", format!("node {} K={:x}: validate_op({}): {}", node, k, S::op_dbg(&op), why));
                    }
                }
            }
            match (v, exp) {
                (Ok(Verdict::Ok), Some(true)) | (Ok(Verdict::Err { .. }), Some(false)) | (Ok(_), None) => Ok(true),
                (Ok(v), Some(e)) => {
                    let d = format!("node {} K={:x}: validate_op({}) = {}, expected {}", node, k, S::op_dbg(&op), v.show(), if e { "Ok (no update of its actor is skipped)" } else { "an ordering error (a gap)" });
                    if w.soft_validate("validate.any", &v, e, d.clone()) {
                        Ok(true)
                    } else {
                        fail(w.step, "validate.any", d)
                    }
                }
                (Err(p), _) => fail(w.step, "validate.any", format!("validate_op panicked: {}", p)),
            }
        }
        Probe::ValidateMerge { a, b } => crate::probes2::validate_merge_probe(w, a, b),
        Probe::Reset { node, c1, c2 } => crate::probes2::reset_probe(w, *node, c1, c2),
        Probe::SerdeRoundTrip { node } => {
            if !w.up(*node) {
                return Ok(false);
            }
            let st = w.nodes[*node].state.clone().unwrap();
            w.stats.probe_cases += 1;
            match guard(|| st.ser()) {
                Ok(Ok(t)) => match guard(|| S::de(&t)) {
                    Ok(Ok(back)) => {
                        same(w, &back, &st, "serde.eq", &format!("node {} after a serde_json round trip", node))?;
                        let (o1, o2) = (obs_of(w, &st, "serde.eq")?, obs_of(w, &back, "serde.eq")?);
                        if o1 != o2 {
                            return fail(w.step, "serde.eq", format!("node {}: restored state reads differently\n  original: {}\n  restored: {}", node, o1.show(), o2.show()));
                        }
                    }
                    Ok(Err(e)) => return fail(w.step, "serde.de", format!("node {}: own serialised state does not deserialise: {}\n  text: {}", node, dq(e), dq(t.clone()))),
                    Err(p) => return fail(w.step, "serde.de", format!("deserialisation panicked: {}", p)),
                },
                Ok(Err(e)) => {
                    let hp = has_pending(&st.dbg());
                    w.soft.push(Failure { clause: "serde.ser".into(), step: w.step, detail: format!("node {} cannot be serialised: {} (pending removes held: {})", node, e, hp) });
                }
                Err(p) => return fail(w.step, "serde.ser", format!("serialisation panicked: {}", p)),
            }
            Ok(true)
        }
        Probe::Converged => {
            let all = w.all_k();
            let mut first: Option<(usize, Obs, S)> = None;
            for n in 0..w.nodes.len() {
                if !w.up(n) {
                    return fail(w.step, "quiesce", format!("node {} is still down after the faults stopped", n));
                }
                if w.nodes[n].k != all {
                    return fail(w.step, "quiesce", format!("node {} has K={:x} after the quiescence phase, all ops = {:x}", n, w.nodes[n].k, all));
                }
                let st = w.nodes[n].state.clone().unwrap();
                let o = obs_of(w, &st, "quiesce")?;
                match &first {
                    None => first = Some((n, o, st)),
                    Some((m, o0, s0)) => {
                        if w.cfg.on("quiesce") && o0.strip_nested() != o.strip_nested() {
                            return fail(w.step, "quiesce", format!("after everything was delivered everywhere node {} and node {} read differently\n  n{}: {}\n  n{}: {}", m, n, m, o0.show(), n, o.show()));
                        }
                        if w.cfg.on("quiesce.eq") {
                            same(w, s0, &st, "quiesce.eq", &format!("node {} vs node {} after quiescence", m, n))?;
                        }
                    }
                }
            }
            Ok(true)
        }
    }
}

fn w_decode<S: Sut>(w: &World<S>, b: &crate::engine::Blob<S>) -> Result<S, Failure> {
    match b {
        crate::engine::Blob::Mem(s) => Ok(s.clone()),
        crate::engine::Blob::Both(t, s) => match guard(|| S::de(t)) {
            Ok(Ok(x)) => Ok(x),
            _ => Ok(s.clone()),
        },
        crate::engine::Blob::Json(t) => match guard(|| S::de(t)) {
            Ok(Ok(s)) => Ok(s),
            Ok(Err(e)) => fail(w.step, "serde.de", format!("state does not deserialise: {}", dq(e))),
            Err(p) => fail(w.step, "serde.de", format!("panic while deserialising: {}", p)),
        },
    }
}

// helpers shared with probes2
pub fn clocks_in_model(aops: &[AOp], k: KSet) -> Clk {
    model::clock_of(aops, k)
}
pub fn leaf_of(o: &AOp) -> Option<&Leaf> {
    o.leaf()
}
pub type HashSetU = BTreeSet<u64>;
pub type MapU = BTreeMap<u8, u64>;
