//! Known findings (DESIGN §4, §6): trigger predicates evaluated on the simulator's abstract history.
//! A failing run is attributed to a recorded finding only if (i) a trigger of an open finding that can
//! explain the failing clause holds on the history and (ii) the pinned baseline copy of the library
//! fails the same clause at the same step with the same canonical observations. Everything else is
//! reported as a violation.

use crate::model::{AInfo, AOp, Leaf};
use crate::types::*;

#[derive(Clone, Debug, Default)]
pub struct Facts {
    pub family: String,
    pub disc: Option<Disc>,
    pub merged: bool,
    pub noncausal_gen: bool,
    pub aops: Vec<AOp>,
}

fn is_prefix(p: &[u8], of: &[u8]) -> bool {
    p.len() <= of.len() && of[..p.len()] == *p
}

fn key_rms(aops: &[AOp]) -> Vec<(Vec<u8>, &Clk)> {
    aops.iter()
        .filter_map(|o| match &o.info {
            AInfo::Dotted { path, leaf: Leaf::KeyRm { k, ctx } } => {
                let mut t = path.clone();
                t.push(*k);
                Some((t, ctx))
            }
            _ => None,
        })
        .collect()
}

fn clause_class(clause: &str) -> &'static str {
    match clause {
        "ktable.eq" | "replay.eq" | "residue" | "quiesce.eq" | "laws.eq" | "redundant.eq" | "mergevsops.eq" | "shadow" | "serde.eq" | "reset.eq" | "restart.ghost" => "eq",
        "serde.ser" => "ser",
        "validate.origin" | "validate.deliver" | "validate.any" | "validate.payload" => "validate",
        "vmerge.correct" | "vmerge.sym" | "vmerge.misuse" => "vmerge",
        "reset" | "reset.join" | "reset.idem" => "reset",
        "panic.read" | "panic.apply" | "panic.merge" | "panic.gen" => "panic",
        _ => "reads",
    }
}

/// ids of the recorded findings whose trigger holds on this history and that can explain `failure`
pub fn triggers(f: &Facts, failure: &Failure) -> Vec<&'static str> {
    let mut t = vec![];
    let class = clause_class(&failure.clause);
    let is_map = f.family.starts_with("map");
    let nested_reg = is_map && f.family.ends_with("mvreg");
    let rms = key_rms(&f.aops);
    let noncausal = f.disc != Some(Disc::Causal);
    // a remove nested inside an update, and a key remove on a prefix of its path
    let nested_rm_under_keyrm = f.aops.iter().any(|o| match &o.info {
        AInfo::Dotted { path, leaf } if !path.is_empty() && matches!(leaf, Leaf::SetRm { .. } | Leaf::KeyRm { .. }) => {
            rms.iter().any(|(t, _)| is_prefix(t, path))
        }
        _ => false,
    });
    // F1: register values carry whole-map contexts that key removes and merges truncate (this also
    // changes what a later reset_remove finds to subtract)
    if nested_reg && class == "reset" && (!rms.is_empty() || f.merged) {
        t.push("F1");
    }
    if is_map && (class == "reads" || class == "eq" || class == "panic") {
        if nested_reg && (!rms.is_empty() || f.merged) {
            t.push("F1");
        }
        // F2: merge forgets a removed dot when the same actor has a later dot under the removed key
        if f.merged {
            let hit = rms.iter().any(|(target, ctx)| {
                f.aops.iter().any(|u1| {
                    u1.dot.map_or(false, |n1| {
                        is_prefix(target, u1.path())
                            && n1 <= clk_get(ctx, u1.author)
                            && f.aops.iter().any(|u2| u2.author == u1.author && is_prefix(target, u2.path()) && u2.dot.map_or(false, |n2| n2 > clk_get(ctx, u1.author)))
                    })
                })
            });
            if hit {
                t.push("F2");
            }
        }
        // F3: a nested remove re-creates a removed entry and stays pending for ever (== / residue only)
        if nested_rm_under_keyrm && class == "eq" {
            t.push("F3");
        }
        // F4: a key remove drops the nested pending removes under non-causal delivery
        if nested_rm_under_keyrm && noncausal {
            t.push("F4");
        }
        // F11: a nested register write takes its context from the map clock
        if nested_reg && noncausal && f.noncausal_gen {
            t.push("F11");
        }
    }
    if class == "ser" && failure.detail.contains("key must be a string") && failure.detail.contains("pending removes held: true") {
        t.push("F7");
    }
    if class == "validate" && is_map && (failure.detail.contains("SourceOrder") || failure.detail.contains("Value(")) && failure.detail.contains("expected Ok") {
        t.push("F5");
    }
    if class == "validate" && is_map && failure.clause == "validate.origin" && (failure.detail.contains("SourceOrder") || failure.detail.contains("Value(")) {
        t.push("F5");
    }
    if class == "vmerge" && failure.detail.contains("DoubleSpentDot") && f.aops.iter().any(|o| matches!(&o.info, AInfo::Dotted { leaf: Leaf::Add(ms), .. } if ms.len() >= 2)) {
        t.push("F6");
    }
    // F10: Map::validate_merge looks into the nested values only when the two entry clocks are concurrent
    if failure.clause == "vmerge.misuse" && is_map && failure.detail.contains("nested under key") {
        t.push("F10");
    }
    t.dedup();
    t
}
