//! Shared vocabulary of the simulator: clocks, knowledge sets, edit descriptors, kernel events,
//! canonical observations, verdicts (DESIGN §2, §3).

use serde::{Deserialize, Serialize};
use std::collections::{BTreeMap, BTreeSet};

/// Canonical vector clock (actor -> counter), never holds zeros.
pub type Clk = BTreeMap<u8, u64>;
/// Knowledge set: bit i = op with table index i is known (learned by delivery or merge).
pub type KSet = u128;
pub const MAX_OPS: usize = 120;

pub fn clk_get(c: &Clk, a: u8) -> u64 {
    c.get(&a).copied().unwrap_or(0)
}
pub fn clk_bump(c: &mut Clk, a: u8, n: u64) {
    if n == 0 {
        return;
    }
    let e = c.entry(a).or_insert(0);
    if n > *e {
        *e = n;
    }
}
pub fn clk_join(a: &Clk, b: &Clk) -> Clk {
    let mut r = a.clone();
    for (k, v) in b {
        clk_bump(&mut r, *k, *v);
    }
    r
}
pub fn clk_leq(a: &Clk, b: &Clk) -> bool {
    a.iter().all(|(k, v)| clk_get(b, *k) >= *v)
}
pub fn has(k: KSet, i: usize) -> bool {
    (k >> i) & 1 == 1
}
pub fn bit(i: usize) -> KSet {
    1u128 << i
}

#[derive(Clone, Copy, Debug, PartialEq, Eq, Serialize, Deserialize)]
pub enum Disc {
    Causal,
    Fifo,
    Any,
}

#[derive(Clone, Copy, Debug, PartialEq, Eq, Serialize, Deserialize)]
pub enum Repl {
    Ops,
    State,
    Hybrid,
}

#[derive(Clone, Debug, PartialEq, Eq, Serialize, Deserialize)]
pub enum Shape {
    Set,
    Reg,
    Map(Box<Shape>),
}

#[derive(Clone, Debug, PartialEq, Eq, Serialize, Deserialize)]
pub enum Family {
    Dotted(Shape),
    GCounter,
    PNCounter,
    VClock,
    GSet,
    MaxReg,
    MinReg,
    Lww,
    List,
    GList,
    Merkle,
}

/// Edit descriptors of the dot-based types (Orswot, MVReg, Map and nestings).
#[derive(Clone, Debug, PartialEq, Eq, Serialize, Deserialize)]
pub enum DDesc {
    SetAdd { m: u8 },
    SetAddAll { ms: Vec<u8> },
    /// remove one member with the context of `contains(m)`
    SetRm { m: u8 },
    /// remove members with the context of `read()` (top level only)
    SetRmAll { ms: Vec<u8> },
    RegWrite { v: u64 },
    MapUp { k: u8, inner: Box<DDesc> },
    /// remove key with the context of `get(k)` (whole=false) or `read_ctx()` (whole=true, top level only)
    MapRm { k: u8, whole: bool },
}

#[derive(Clone, Debug, PartialEq, Eq, Serialize, Deserialize)]
pub enum Desc {
    D(DDesc),
    Inc,
    Dec,
    IncMany(u64),
    DecMany(u64),
    Put(u64),
    Lww { v: u64, reuse_marker: bool },
    LIns { ix: usize, v: u64 },
    LApp { v: u64 },
    LDel { ix: usize },
    GIns { ix: usize, v: u64 },
    GAfter { ix: usize, v: u64 },
    GBefore { ix: usize, v: u64 },
    MWrite { v: u64, mask: u32 },
}

#[derive(Clone, Debug, PartialEq, Eq, Serialize, Deserialize)]
pub enum StateRef {
    Node(usize),
    Flight(u32),
    Disk(usize),
}

#[derive(Clone, Debug, PartialEq, Eq, Serialize, Deserialize)]
pub enum ClockSrc {
    Empty,
    NodeClock(usize),
    OpCtx(u32),
    /// the clock of the knowledge set a node had when it generated op `tag`
    OpGen(u32),
}

#[derive(Clone, Debug, PartialEq, Eq, Serialize, Deserialize)]
pub enum Probe {
    /// join laws on clones of three states taken from the world
    Laws { a: StateRef, b: StateRef, c: StateRef },
    /// merge(state a, state b) reads as a fresh replica fed the union of the ops (causal order)
    MergeVsOps { a: StateRef, b: StateRef },
    /// enumerate every redundant delivery at `node`: each known op, each subsumed state
    Redundancy { node: usize },
    /// validate_op of op `tag` at `node` whatever its deliverability
    Validate { node: usize, tag: u32 },
    /// validate_merge in both directions
    ValidateMerge { a: StateRef, b: StateRef },
    /// reset_remove(c) on a clone of `node`
    Reset { node: usize, c1: ClockSrc, c2: ClockSrc },
    /// rebuild a fresh replica from the node's knowledge set in canonical causal order
    CausalReplay { node: usize },
    /// serialise / deserialise state and all known ops without replacing anything
    SerdeRoundTrip { node: usize },
    /// after the quiescence phase: every node is up, knows every op and reads the same
    Converged,
}

#[derive(Clone, Debug, PartialEq, Eq, Serialize, Deserialize)]
pub enum Ev {
    /// a client of `node` takes a read and keeps it; `from` = the replica it reads from when that is not
    /// `node` itself (read at one replica, write at another: remove contexts only)
    Read {
        node: usize,
        #[serde(default)]
        from: Option<usize>,
    },
    Edit { node: usize, tag: u32, desc: Desc, held: bool, via: u8 },
    Deliver { node: usize, tag: u32 },
    Gossip { src: usize, gid: u32 },
    DeliverState { dst: usize, gid: u32 },
    Snapshot { node: usize },
    Crash { node: usize, lose_tail: u8 },
    Restart { node: usize, stale: bool },
    /// serialise + deserialise the live state in place; the original is kept as shadow
    Bounce { node: usize },
    Tick { dt: u64 },
    ClockJump { node: usize, delta: i64 },
    /// network / scheduling faults: they shape what the generator may pick next; the executor only
    /// keeps their book-keeping (DESIGN §2.1)
    DropMsg { node: usize, tag: u32 },
    Partition { mask: u32 },
    Heal,
    Stall { node: usize },
    Resume { node: usize },
    Sync { src: usize, dst: usize },
    Probe(Probe),
}

#[derive(Clone, Debug, PartialEq, Eq, Serialize, Deserialize)]
pub struct Config {
    pub family: String,
    pub nodes: usize,
    pub disc: Disc,
    pub repl: Repl,
    pub nkeys: u8,
    pub nmembers: u8,
    pub max_edits: usize,
    pub max_events: usize,
    /// every message and snapshot goes through serde_json (C19); otherwise clones
    pub json_wire: bool,
    /// misuse configuration (C17): stale-backup restarts / marker reuse allowed
    pub misuse: bool,
    /// enabled oracle clauses
    pub clauses: Vec<String>,
    /// enabled fault kinds: dup, drop, partition, stall, crash, clock, stale_state
    pub faults: Vec<String>,
    /// allow held (stale) reads
    pub held: bool,
    /// per-mille probabilities used by the generator
    pub p_edit: u32,
    pub p_fault: u32,
    pub p_probe: u32,
    pub quiesce: bool,
    /// values may repeat: equal values written concurrently to a register, equal elements in a GList
    #[serde(default)]
    pub dup_values: bool,
    /// C19 crash-point enumeration: after every applied state change the touched replica is serialised,
    /// deserialised and replaced by the restored value (the original lives on as its twin)
    #[serde(default)]
    pub bounce_every: bool,
    /// C09 redundancy enumeration at every prefix: after every applied state change every known op is
    /// re-applied and every subsumed state re-merged into a clone of the touched replica
    #[serde(default)]
    pub redundancy_every: bool,
    /// actor identifier of each node (empty = node index): identifiers far apart and in either order
    #[serde(default)]
    pub actor_ids: Vec<u8>,
    /// unusual inputs: huge counter steps, indices far beyond the end, empty / repeated argument lists
    #[serde(default)]
    pub odd_inputs: bool,
    /// sequences: each replica types a long run of elements at an advancing cursor, so that the gap between
    /// two neighbours is halved dozens of times (identifier rationals with huge denominators)
    #[serde(default)]
    pub long_typing: bool,
    /// remove bursts: a top-level remove is sometimes followed at once by a second remove issued from the same
    /// read (another key with the whole-map context, another member list with the whole-set context), so that
    /// distinct removes carry identical clocks and meet in the pending tables of different replicas
    #[serde(default)]
    pub rm_burst: bool,
}

impl Config {
    pub fn on(&self, clause: &str) -> bool {
        self.clauses.iter().any(|c| c == clause)
    }
    pub fn fault(&self, f: &str) -> bool {
        self.faults.iter().any(|c| c == f)
    }
}

/// canonical observation of a dot-based value
#[derive(Clone, Debug, PartialEq, Eq, Serialize, Deserialize)]
pub enum DObs {
    /// member -> surviving witnesses
    Set(BTreeMap<u8, Clk>),
    /// sorted multiset of values
    Reg(Vec<u64>),
    /// key -> (entry witnesses, nested value)
    Map(BTreeMap<u8, (Clk, DObs)>),
}

impl DObs {
    /// drop contexts nested inside Map values (C01/C07 look at top-level contexts only)
    pub fn strip_nested(&self, top: bool) -> DObs {
        match self {
            DObs::Set(m) => {
                if top {
                    self.clone()
                } else {
                    DObs::Set(m.keys().map(|k| (*k, Clk::new())).collect())
                }
            }
            DObs::Reg(_) => self.clone(),
            DObs::Map(m) => DObs::Map(
                m.iter()
                    .map(|(k, (c, v))| (*k, (if top { c.clone() } else { Clk::new() }, v.strip_nested(false))))
                    .collect(),
            ),
        }
    }
}

#[derive(Clone, Debug, PartialEq, Eq, Serialize, Deserialize)]
pub enum Obs {
    Dotted { add: Clk, body: DObs, notes: Vec<String> },
    Num { val: String, notes: Vec<String> },
    Clock(Clk),
    SetU(BTreeSet<u64>),
    Val(u64),
    Lww { val: u64, marker: (u64, u8, u64) },
    /// values in sequence order, identifiers rendered canonically alongside
    Seq { vals: Vec<u64>, notes: Vec<String> },
    Merkle {
        heads: BTreeSet<String>,
        head_vals: BTreeSet<u64>,
        nodes: usize,
        orphans: usize,
        notes: Vec<String>,
    },
    Panic(String),
}

impl Obs {
    pub fn show(&self) -> String {
        format!("{:?}", self)
    }
    pub fn strip_nested(&self) -> Obs {
        match self {
            Obs::Dotted { add, body, notes } => Obs::Dotted { add: add.clone(), body: body.strip_nested(true), notes: notes.clone() },
            o => o.clone(),
        }
    }
}

#[derive(Clone, Debug, PartialEq, Eq)]
pub enum Verdict {
    Ok,
    Err { kind: String, info: String },
    Panic(String),
}

/// contexts carried by an API-generated op (C07)
#[derive(Clone, Debug, PartialEq, Eq, Default)]
pub struct OpInfo {
    pub dot: Option<(u8, u64)>,
    /// dots repeated at inner nesting levels (must all equal `dot`)
    pub inner_dots: Vec<(u8, u64)>,
    pub rm_ctx: Option<Clk>,
    pub write_ctx: Option<Clk>,
}

#[derive(Clone, Debug, PartialEq, Eq, Serialize, Deserialize)]
pub struct Failure {
    pub clause: String,
    pub step: usize,
    pub detail: String,
}

pub struct GenEnv {
    pub now: u64,
    /// last marker used by this actor (misuse: reuse)
    pub last_marker: Option<(u64, u8, u64)>,
    pub seq: u64,
}

/// Wrap text whose rendering may depend on hash-map iteration order (Debug of states, raw JSON):
/// it is shown to the reader but left out of failure signatures.
pub fn dq(s: String) -> String {
    format!("\u{ab}{}\u{bb}", s)
}
/// the canonical part of a failure message
pub fn signature(detail: &str) -> String {
    let mut out = String::new();
    let mut depth = 0;
    for c in detail.chars() {
        match c {
            '\u{ab}' => depth += 1,
            '\u{bb}' => {
                if depth > 0 {
                    depth -= 1
                }
            }
            c if depth == 0 => out.push(c),
            _ => {}
        }
    }
    out
}

impl Verdict {
    /// kind in the clear, payload (which may name a hash-order dependent pair) as non-canonical text
    pub fn show(&self) -> String {
        match self {
            Verdict::Ok => "Ok".to_string(),
            Verdict::Err { kind, info } => format!("Err({} {})", kind, dq(info.clone())),
            Verdict::Panic(p) => format!("Panic({})", p),
        }
    }
}
