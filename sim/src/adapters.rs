// Adapters between the simulator's `Sut` trait and the library's public API.
// This file is `include!`d twice: once with `lib = crdts` (the working tree under /repo) and once with
// `lib = crdts_base` (the pinned baseline copy), see main.rs. Only public API is used.

use self::lib::ctx::{AddCtx, ReadCtx};
use self::lib::merkle_reg::{MerkleReg, Node};
use self::lib::{
    CmRDT, CvRDT, Dot, GCounter, GList, GSet, LWWReg, List, MVReg, Map, MaxReg, MinReg, Orswot, PNCounter,
    ResetRemove, VClock,
};
use crate::sut::Sut;
use crate::types::*;
use std::collections::{BTreeMap, BTreeSet};
use std::fmt::Debug;

/// universe of keys and members queried by observations
pub const UNIV: u8 = 4;

fn clk(v: &VClock<u8>) -> Clk {
    v.iter().filter(|d| d.counter > 0).map(|d| (*d.actor, d.counter)).collect()
}
fn vclock(c: &Clk) -> VClock<u8> {
    c.iter().map(|(a, n)| Dot::new(*a, *n)).collect()
}
fn verdict<E: Debug>(r: Result<(), E>) -> Verdict {
    match r {
        Ok(()) => Verdict::Ok,
        Err(e) => {
            let info = format!("{:?}", e);
            let kind: String = info.chars().take_while(|c| c.is_alphanumeric() || *c == '_').collect();
            Verdict::Err { kind, info }
        }
    }
}
fn check_ctx<V>(notes: &mut Vec<String>, what: &str, r: &ReadCtx<V, u8>, add: &Clk, rm: Option<&Clk>) {
    if clk(&r.add_clock) != *add {
        notes.push(format!("{}: add_clock {:?} != {:?}", what, clk(&r.add_clock), add));
    }
    if let Some(rm) = rm {
        if clk(&r.rm_clock) != *rm {
            notes.push(format!("{}: rm_clock {:?} != {:?}", what, clk(&r.rm_clock), rm));
        }
    }
    if !clk_leq(&clk(&r.rm_clock), &clk(&r.add_clock)) {
        notes.push(format!("{}: rm_clock {:?} exceeds add_clock {:?}", what, clk(&r.rm_clock), clk(&r.add_clock)));
    }
}

// ------------------------------------------------------------------------------------------------
// dot-based types: Orswot, MVReg, Map and nestings
// ------------------------------------------------------------------------------------------------

pub trait Nested: Clone + Default {
    type NOp: Clone;
    fn shape() -> Shape;
    fn gen_dotted(cur: &Self, read: &Self, d: &DDesc, ctx: AddCtx<u8>) -> Result<Self::NOp, String>;
    fn gen_undotted(cur: &Self, read: &Self, d: &DDesc) -> Result<Self::NOp, String>;
    fn top_add_ctx(read: &Self, actor: u8, via: u8) -> AddCtx<u8>;
    fn top_obs(&self) -> Obs;
    fn dobs(&self, notes: &mut Vec<String>) -> DObs;
    fn n_op_info(op: &Self::NOp, info: &mut OpInfo);
    fn n_apply(&mut self, op: Self::NOp);
    fn n_merge(&mut self, o: Self);
    fn n_vo(&self, op: &Self::NOp) -> Verdict;
    fn n_vm(&self, o: &Self) -> Verdict;
    fn n_eq(&self, o: &Self) -> bool;
    fn n_dbg(&self) -> String;
    fn n_ser(&self) -> Result<String, String>;
    fn n_de(s: &str) -> Result<Self, String>;
    fn n_ser_op(op: &Self::NOp) -> Result<String, String>;
    fn n_de_op(s: &str) -> Result<Self::NOp, String>;
    fn n_op_eq(a: &Self::NOp, b: &Self::NOp) -> bool;
    fn n_op_dbg(a: &Self::NOp) -> String;
    fn n_reset(&mut self, c: &VClock<u8>);
}

macro_rules! nested_boiler {
    () => {
        fn n_apply(&mut self, op: Self::NOp) {
            self.apply(op)
        }
        fn n_merge(&mut self, o: Self) {
            self.merge(o)
        }
        fn n_vo(&self, op: &Self::NOp) -> Verdict {
            verdict(self.validate_op(op))
        }
        fn n_vm(&self, o: &Self) -> Verdict {
            verdict(self.validate_merge(o))
        }
        fn n_eq(&self, o: &Self) -> bool {
            self == o
        }
        fn n_dbg(&self) -> String {
            format!("{:?}", self)
        }
        fn n_ser(&self) -> Result<String, String> {
            serde_json::to_string(self).map_err(|e| e.to_string())
        }
        fn n_de(s: &str) -> Result<Self, String> {
            serde_json::from_str(s).map_err(|e| e.to_string())
        }
        fn n_ser_op(op: &Self::NOp) -> Result<String, String> {
            serde_json::to_string(op).map_err(|e| e.to_string())
        }
        fn n_de_op(s: &str) -> Result<Self::NOp, String> {
            serde_json::from_str(s).map_err(|e| e.to_string())
        }
        fn n_op_eq(a: &Self::NOp, b: &Self::NOp) -> bool {
            a == b
        }
        fn n_op_dbg(a: &Self::NOp) -> String {
            format!("{:?}", a)
        }
        fn n_reset(&mut self, c: &VClock<u8>) {
            self.reset_remove(c)
        }
    };
}

type OrS = Orswot<u8, u8>;
type MvR = MVReg<u64, u8>;

impl Nested for OrS {
    type NOp = self::lib::orswot::Op<u8, u8>;
    fn shape() -> Shape {
        Shape::Set
    }
    fn gen_dotted(cur: &Self, _read: &Self, d: &DDesc, ctx: AddCtx<u8>) -> Result<Self::NOp, String> {
        match d {
            DDesc::SetAdd { m } => Ok(cur.add(*m, ctx)),
            DDesc::SetAddAll { ms } => Ok(cur.add_all(ms.clone(), ctx)),
            // nested removes ride on the enclosing update's dot; the AddCtx is not used
            DDesc::SetRm { .. } | DDesc::SetRmAll { .. } => Self::gen_undotted(cur, _read, d),
            o => Err(format!("descriptor {:?} does not fit a set", o)),
        }
    }
    fn gen_undotted(cur: &Self, read: &Self, d: &DDesc) -> Result<Self::NOp, String> {
        match d {
            DDesc::SetRm { m } => {
                // the same context, with and without going through ReadCtx::split
                let (present, ctx) = read.contains(m).split();
                let direct = read.contains(m);
                if present != direct.val || ctx.rm_clock != direct.rm_clock || ctx.add_clock != direct.add_clock {
                    return Err("ReadCtx::split changed the context".to_string());
                }
                Ok(cur.rm(*m, ctx.derive_rm_ctx()))
            }
            DDesc::SetRmAll { ms } => Ok(cur.rm_all(ms.clone(), read.read().derive_rm_ctx())),
            o => Err(format!("descriptor {:?} is not an undotted set op", o)),
        }
    }
    fn top_add_ctx(read: &Self, actor: u8, via: u8) -> AddCtx<u8> {
        match via % 5 {
            0 => read.read_ctx().derive_add_ctx(actor),
            1 => read.read().derive_add_ctx(actor),
            2 => read.contains(&(via % UNIV)).derive_add_ctx(actor),
            3 => read.read().split().1.derive_add_ctx(actor),
            _ => match read.iter().next() {
                Some(it) => it.derive_add_ctx(actor),
                None => read.read_ctx().derive_add_ctx(actor),
            },
        }
    }
    fn top_obs(&self) -> Obs {
        let mut notes = vec![];
        let r = self.read();
        let add = clk(&r.add_clock);
        check_ctx(&mut notes, "read", &r, &add, Some(&add));
        check_ctx(&mut notes, "read_ctx", &self.read_ctx(), &add, Some(&add));
        if clk(&self.clock()) != add {
            notes.push(format!("clock() {:?} != add_clock {:?}", clk(&self.clock()), add));
        }
        let mut members = BTreeMap::new();
        for m in 0..UNIV {
            let c = self.contains(&m);
            check_ctx(&mut notes, "contains", &c, &add, None);
            if c.val != r.val.contains(&m) {
                notes.push(format!("contains({}).val={} but read().val has it: {}", m, c.val, r.val.contains(&m)));
            }
            if c.val {
                if c.rm_clock.is_empty() {
                    notes.push(format!("contains({}) present with empty rm_clock", m));
                }
                members.insert(m, clk(&c.rm_clock));
            } else if !c.rm_clock.is_empty() {
                notes.push(format!("contains({}) absent with rm_clock {:?}", m, clk(&c.rm_clock)));
            }
        }
        for m in r.val.iter() {
            if *m >= UNIV {
                notes.push(format!("member {} outside the universe", m));
            }
        }
        let mut n_iter = 0;
        for it in self.iter() {
            n_iter += 1;
            check_ctx(&mut notes, "iter", &it, &add, members.get(it.val));
            if !members.contains_key(it.val) {
                notes.push(format!("iter yields {} which contains() denies", it.val));
            }
        }
        if n_iter != members.len() {
            notes.push(format!("iter yields {} items, contains() {}", n_iter, members.len()));
        }
        Obs::Dotted { add, body: DObs::Set(members), notes }
    }
    fn dobs(&self, notes: &mut Vec<String>) -> DObs {
        let r = self.read();
        let mut members = BTreeMap::new();
        for m in 0..UNIV {
            let c = self.contains(&m);
            if c.val != r.val.contains(&m) {
                notes.push(format!("nested contains({}).val={} disagrees with read()", m, c.val));
            }
            if c.val {
                members.insert(m, clk(&c.rm_clock));
            }
        }
        DObs::Set(members)
    }
    fn n_op_info(op: &Self::NOp, info: &mut OpInfo) {
        match op {
            self::lib::orswot::Op::Add { dot, .. } => info.inner_dots.push((dot.actor, dot.counter)),
            self::lib::orswot::Op::Rm { clock, .. } => info.rm_ctx = Some(clk(clock)),
        }
    }
    nested_boiler!();
}

impl Nested for MvR {
    type NOp = self::lib::mvreg::Op<u64, u8>;
    fn shape() -> Shape {
        Shape::Reg
    }
    fn gen_dotted(cur: &Self, _read: &Self, d: &DDesc, ctx: AddCtx<u8>) -> Result<Self::NOp, String> {
        match d {
            DDesc::RegWrite { v } => Ok(cur.write(*v, ctx)),
            o => Err(format!("descriptor {:?} does not fit a register", o)),
        }
    }
    fn gen_undotted(_cur: &Self, _read: &Self, d: &DDesc) -> Result<Self::NOp, String> {
        Err(format!("descriptor {:?} is not an undotted register op", d))
    }
    fn top_add_ctx(read: &Self, actor: u8, via: u8) -> AddCtx<u8> {
        match via % 2 {
            0 => read.read_ctx().derive_add_ctx(actor),
            _ => read.read().derive_add_ctx(actor),
        }
    }
    fn top_obs(&self) -> Obs {
        let mut notes = vec![];
        let r = self.read();
        let add = clk(&r.add_clock);
        check_ctx(&mut notes, "read", &r, &add, Some(&add));
        check_ctx(&mut notes, "read_ctx", &self.read_ctx(), &add, Some(&add));
        let mut vals = r.val;
        vals.sort();
        Obs::Dotted { add, body: DObs::Reg(vals), notes }
    }
    fn dobs(&self, _notes: &mut Vec<String>) -> DObs {
        let mut vals = self.read().val;
        vals.sort();
        DObs::Reg(vals)
    }
    fn n_op_info(op: &Self::NOp, info: &mut OpInfo) {
        match op {
            self::lib::mvreg::Op::Put { clock, .. } => info.write_ctx = Some(clk(clock)),
        }
    }
    nested_boiler!();
}

macro_rules! nested_map {
    ($inner:ty) => {
        impl Nested for Map<u8, $inner, u8> {
            type NOp = self::lib::map::Op<u8, $inner, u8>;
            fn shape() -> Shape {
                Shape::Map(Box::new(<$inner as Nested>::shape()))
            }
            fn gen_dotted(cur: &Self, read: &Self, d: &DDesc, ctx: AddCtx<u8>) -> Result<Self::NOp, String> {
                match d {
                    DDesc::MapUp { k, inner } => {
                        let read_v: $inner = read.get(k).val.unwrap_or_default();
                        let mut res: Result<(), String> = Ok(());
                        // Map::update wants an op whatever happens; errors are carried out by `res`
                        let probe = <$inner as Nested>::gen_dotted(
                            &cur.get(k).val.unwrap_or_default(),
                            &read_v,
                            inner,
                            AddCtx { clock: ctx.clock.clone(), dot: ctx.dot.clone() },
                        );
                        match probe {
                            Err(e) => {
                                res = Err(e);
                            }
                            Ok(_) => {}
                        }
                        res?;
                        Ok(cur.update(*k, ctx, |v, c| {
                            <$inner as Nested>::gen_dotted(v, &read_v, inner, c).expect("checked above")
                        }))
                    }
                    DDesc::MapRm { .. } => Self::gen_undotted(cur, read, d),
                    o => Err(format!("descriptor {:?} does not fit a map", o)),
                }
            }
            fn gen_undotted(cur: &Self, read: &Self, d: &DDesc) -> Result<Self::NOp, String> {
                match d {
                    DDesc::MapRm { k, whole: false } => Ok(cur.rm(*k, read.get(k).derive_rm_ctx())),
                    DDesc::MapRm { k, whole: true } => Ok(cur.rm(*k, read.read_ctx().derive_rm_ctx())),
                    o => Err(format!("descriptor {:?} is not an undotted map op", o)),
                }
            }
            fn top_add_ctx(read: &Self, actor: u8, via: u8) -> AddCtx<u8> {
                match via % 6 {
                    0 => read.read_ctx().derive_add_ctx(actor),
                    1 => read.get(&(via % UNIV)).derive_add_ctx(actor),
                    2 => read.len().derive_add_ctx(actor),
                    3 => read.is_empty().derive_add_ctx(actor),
                    4 => match read.keys().next() {
                        Some(it) => it.derive_add_ctx(actor),
                        None => read.read_ctx().derive_add_ctx(actor),
                    },
                    _ => match read.iter().next() {
                        Some(it) => it.derive_add_ctx(actor),
                        None => read.read_ctx().derive_add_ctx(actor),
                    },
                }
            }
            fn top_obs(&self) -> Obs {
                let mut notes = vec![];
                let rc = self.read_ctx();
                let add = clk(&rc.add_clock);
                check_ctx(&mut notes, "read_ctx", &rc, &add, Some(&add));
                let mut keys = BTreeMap::new();
                for k in 0..UNIV {
                    let g = self.get(&k);
                    check_ctx(&mut notes, "get", &g, &add, None);
                    match g.val {
                        Some(v) => {
                            if g.rm_clock.is_empty() {
                                notes.push(format!("get({}) present with empty rm_clock", k));
                            }
                            keys.insert(k, (clk(&g.rm_clock), v.dobs(&mut notes)));
                        }
                        None => {
                            if !g.rm_clock.is_empty() {
                                notes.push(format!("get({}) absent with rm_clock {:?}", k, clk(&g.rm_clock)));
                            }
                        }
                    }
                }
                let l = self.len();
                check_ctx(&mut notes, "len", &l, &add, Some(&add));
                if l.val != keys.len() {
                    notes.push(format!("len()={} but get() finds {} keys", l.val, keys.len()));
                }
                let e = self.is_empty();
                check_ctx(&mut notes, "is_empty", &e, &add, Some(&add));
                if e.val != keys.is_empty() {
                    notes.push(format!("is_empty()={} but get() finds {} keys", e.val, keys.len()));
                }
                let mut n = 0;
                for it in self.keys() {
                    n += 1;
                    check_ctx(&mut notes, "keys", &it, &add, keys.get(it.val).map(|x| &x.0));
                    if !keys.contains_key(it.val) {
                        notes.push(format!("keys() yields {} which get() denies", it.val));
                    }
                }
                if n != keys.len() {
                    notes.push(format!("keys() yields {} items, get() {}", n, keys.len()));
                }
                let mut n = 0;
                for it in self.iter() {
                    n += 1;
                    check_ctx(&mut notes, "iter", &it, &add, keys.get(it.val.0).map(|x| &x.0));
                    let mut sub = vec![];
                    if keys.get(it.val.0).map(|x| &x.1) != Some(&it.val.1.dobs(&mut sub)) {
                        notes.push(format!("iter() value under {} differs from get()", it.val.0));
                    }
                }
                if n != keys.len() {
                    notes.push(format!("iter() yields {} items, get() {}", n, keys.len()));
                }
                let mut vals_seen = vec![];
                for it in self.values() {
                    let mut sub = vec![];
                    vals_seen.push((clk(&it.rm_clock), it.val.dobs(&mut sub)));
                    if clk(&it.add_clock) != add {
                        notes.push("values(): add_clock differs".to_string());
                    }
                }
                let expect_vals: Vec<(Clk, DObs)> = keys.values().cloned().collect();
                if vals_seen != expect_vals {
                    notes.push("values() differs from get() over the keys".to_string());
                }
                Obs::Dotted { add, body: DObs::Map(keys), notes }
            }
            fn dobs(&self, notes: &mut Vec<String>) -> DObs {
                let mut keys = BTreeMap::new();
                for k in 0..UNIV {
                    let g = self.get(&k);
                    if let Some(v) = g.val {
                        keys.insert(k, (clk(&g.rm_clock), v.dobs(notes)));
                    }
                }
                if self.len().val != keys.len() {
                    notes.push(format!("nested len()={} but get() finds {}", self.len().val, keys.len()));
                }
                DObs::Map(keys)
            }
            fn n_op_info(op: &Self::NOp, info: &mut OpInfo) {
                match op {
                    self::lib::map::Op::Rm { clock, .. } => info.rm_ctx = Some(clk(clock)),
                    self::lib::map::Op::Up { dot, op, .. } => {
                        info.inner_dots.push((dot.actor, dot.counter));
                        <$inner as Nested>::n_op_info(op, info);
                    }
                }
            }
            nested_boiler!();
        }
    };
}

nested_map!(OrS);
nested_map!(MvR);
nested_map!(Map<u8, OrS, u8>);
nested_map!(Map<u8, MvR, u8>);

/// A top-level replica of a dot-based type.
#[derive(Clone)]
pub struct Dotted<T: Nested>(pub T);

impl<T: Nested> Sut for Dotted<T> {
    type Op = T::NOp;
    fn family() -> Family {
        Family::Dotted(T::shape())
    }
    fn new() -> Self {
        Dotted(T::default())
    }
    fn gen(&self, read: &Self, actor: u8, d: &Desc, via: u8, _env: &GenEnv) -> Result<Self::Op, String> {
        let d = match d {
            Desc::D(d) => d,
            o => return Err(format!("descriptor {:?} does not fit a dot-based type", o)),
        };
        match d {
            DDesc::SetRm { .. } | DDesc::SetRmAll { .. } | DDesc::MapRm { .. } => T::gen_undotted(&self.0, &read.0, d),
            _ => {
                // the context of an add/write comes from the client's read; a remove nested in an update
                // only needs the dot, which must be the actor's next one at the issuing replica
                let leaf_is_write = {
                    let mut x = d;
                    loop {
                        match x {
                            DDesc::MapUp { inner, .. } => x = inner,
                            DDesc::RegWrite { .. } | DDesc::SetAdd { .. } | DDesc::SetAddAll { .. } => break true,
                            _ => break false,
                        }
                    }
                };
                let ctx = if leaf_is_write { T::top_add_ctx(&read.0, actor, via) } else { T::top_add_ctx(&self.0, actor, via) };
                T::gen_dotted(&self.0, &read.0, d, ctx)
            }
        }
    }
    fn apply(&mut self, op: Self::Op) {
        self.0.n_apply(op)
    }
    fn can_merge() -> bool {
        true
    }
    fn merge(&mut self, other: Self) {
        self.0.n_merge(other.0)
    }
    fn validate_op(&self, op: &Self::Op) -> Verdict {
        self.0.n_vo(op)
    }
    fn validate_merge(&self, other: &Self) -> Verdict {
        self.0.n_vm(&other.0)
    }
    fn obs(&self) -> Obs {
        self.0.top_obs()
    }
    fn op_info(op: &Self::Op) -> OpInfo {
        let mut info = OpInfo::default();
        T::n_op_info(op, &mut info);
        if !info.inner_dots.is_empty() {
            info.dot = Some(info.inner_dots.remove(0));
        }
        info
    }
    fn same(&self, other: &Self) -> bool {
        self.0.n_eq(&other.0)
    }
    fn dbg(&self) -> String {
        self.0.n_dbg()
    }
    fn ser(&self) -> Result<String, String> {
        self.0.n_ser()
    }
    fn de(s: &str) -> Result<Self, String> {
        T::n_de(s).map(Dotted)
    }
    fn ser_op(op: &Self::Op) -> Result<String, String> {
        T::n_ser_op(op)
    }
    fn de_op(s: &str) -> Result<Self::Op, String> {
        T::n_de_op(s)
    }
    fn op_same(a: &Self::Op, b: &Self::Op) -> bool {
        T::n_op_eq(a, b)
    }
    fn op_dbg(op: &Self::Op) -> String {
        T::n_op_dbg(op)
    }
    fn can_reset() -> bool {
        true
    }
    fn reset_remove(&mut self, c: &Clk) {
        self.0.n_reset(&vclock(c))
    }
}

pub type SOrswot = Dotted<OrS>;
pub type SMvReg = Dotted<MvR>;
pub type SMapOrswot = Dotted<Map<u8, OrS, u8>>;
pub type SMapMvReg = Dotted<Map<u8, MvR, u8>>;
pub type SMapMapOrswot = Dotted<Map<u8, Map<u8, OrS, u8>, u8>>;
pub type SMapMapMvReg = Dotted<Map<u8, Map<u8, MvR, u8>, u8>>;

// ------------------------------------------------------------------------------------------------
// simple types
// ------------------------------------------------------------------------------------------------

macro_rules! serde_boiler {
    () => {
        fn same(&self, other: &Self) -> bool {
            self.0 == other.0
        }
        fn dbg(&self) -> String {
            format!("{:?}", self.0)
        }
        fn ser(&self) -> Result<String, String> {
            serde_json::to_string(&self.0).map_err(|e| e.to_string())
        }
        fn ser_op(op: &Self::Op) -> Result<String, String> {
            serde_json::to_string(op).map_err(|e| e.to_string())
        }
        fn de_op(s: &str) -> Result<Self::Op, String> {
            serde_json::from_str(s).map_err(|e| e.to_string())
        }
        fn op_dbg(op: &Self::Op) -> String {
            format!("{:?}", op)
        }
        fn validate_op(&self, op: &Self::Op) -> Verdict {
            verdict(self.0.validate_op(op))
        }
        fn validate_merge(&self, other: &Self) -> Verdict {
            verdict(self.0.validate_merge(&other.0))
        }
        fn apply(&mut self, op: Self::Op) {
            self.0.apply(op)
        }
        fn can_merge() -> bool {
            true
        }
        fn merge(&mut self, other: Self) {
            self.0.merge(other.0)
        }
    };
}

#[derive(Clone)]
pub struct SGCounter(pub GCounter<u8>);
impl Sut for SGCounter {
    type Op = Dot<u8>;
    fn family() -> Family {
        Family::GCounter
    }
    fn new() -> Self {
        SGCounter(GCounter::new())
    }
    fn gen(&self, _read: &Self, actor: u8, d: &Desc, _via: u8, _env: &GenEnv) -> Result<Self::Op, String> {
        match d {
            Desc::Inc => Ok(self.0.inc(actor)),
            Desc::IncMany(n) => Ok(self.0.inc_many(actor, *n)),
            o => Err(format!("descriptor {:?} does not fit GCounter", o)),
        }
    }
    fn obs(&self) -> Obs {
        Obs::Num { val: self.0.read().to_string(), notes: vec![] }
    }
    fn op_info(op: &Self::Op) -> OpInfo {
        OpInfo { dot: Some((op.actor, op.counter)), ..Default::default() }
    }
    fn de(s: &str) -> Result<Self, String> {
        serde_json::from_str(s).map(SGCounter).map_err(|e| e.to_string())
    }
    fn op_same(a: &Self::Op, b: &Self::Op) -> bool {
        a == b
    }
    fn can_reset() -> bool {
        true
    }
    fn reset_remove(&mut self, c: &Clk) {
        self.0.reset_remove(&vclock(c))
    }
    serde_boiler!();
}

#[derive(Clone)]
pub struct SPNCounter(pub PNCounter<u8>);
impl Sut for SPNCounter {
    type Op = self::lib::pncounter::Op<u8>;
    fn family() -> Family {
        Family::PNCounter
    }
    fn new() -> Self {
        SPNCounter(PNCounter::new())
    }
    fn gen(&self, _read: &Self, actor: u8, d: &Desc, _via: u8, _env: &GenEnv) -> Result<Self::Op, String> {
        match d {
            Desc::Inc => Ok(self.0.inc(actor)),
            Desc::Dec => Ok(self.0.dec(actor)),
            Desc::IncMany(n) => Ok(self.0.inc_many(actor, *n)),
            Desc::DecMany(n) => Ok(self.0.dec_many(actor, *n)),
            o => Err(format!("descriptor {:?} does not fit PNCounter", o)),
        }
    }
    fn obs(&self) -> Obs {
        Obs::Num { val: self.0.read().to_string(), notes: vec![] }
    }
    fn op_info(op: &Self::Op) -> OpInfo {
        OpInfo { dot: Some((op.dot.actor, op.dot.counter)), ..Default::default() }
    }
    fn de(s: &str) -> Result<Self, String> {
        serde_json::from_str(s).map(SPNCounter).map_err(|e| e.to_string())
    }
    fn op_same(a: &Self::Op, b: &Self::Op) -> bool {
        a.dot == b.dot && format!("{:?}", a.dir) == format!("{:?}", b.dir)
    }
    fn can_reset() -> bool {
        true
    }
    fn reset_remove(&mut self, c: &Clk) {
        self.0.reset_remove(&vclock(c))
    }
    serde_boiler!();
}

#[derive(Clone)]
pub struct SVClock(pub VClock<u8>);
impl Sut for SVClock {
    type Op = Dot<u8>;
    fn family() -> Family {
        Family::VClock
    }
    fn new() -> Self {
        SVClock(VClock::new())
    }
    fn gen(&self, _read: &Self, actor: u8, d: &Desc, _via: u8, _env: &GenEnv) -> Result<Self::Op, String> {
        match d {
            Desc::Inc => Ok(self.0.inc(actor)),
            o => Err(format!("descriptor {:?} does not fit VClock", o)),
        }
    }
    fn obs(&self) -> Obs {
        let c = clk(&self.0);
        if self.0.is_empty() != c.is_empty() {
            return Obs::Panic("VClock::is_empty disagrees with iter()".to_string());
        }
        for (a, n) in c.iter() {
            let d = self.0.dot(*a);
            if d.actor != *a || d.counter != *n || self.0.inc(*a).counter != *n + 1 {
                return Obs::Panic(format!("VClock::dot/inc for actor {} disagree with get()", a));
            }
            if self.0.get(a) != *n {
                return Obs::Panic(format!("VClock::get({}) = {} but iter() yields {}", a, self.0.get(a), n));
            }
        }
        Obs::Clock(c)
    }
    fn op_info(op: &Self::Op) -> OpInfo {
        OpInfo { dot: Some((op.actor, op.counter)), ..Default::default() }
    }
    fn de(s: &str) -> Result<Self, String> {
        serde_json::from_str(s).map(SVClock).map_err(|e| e.to_string())
    }
    fn op_same(a: &Self::Op, b: &Self::Op) -> bool {
        a == b
    }
    fn can_reset() -> bool {
        true
    }
    fn reset_remove(&mut self, c: &Clk) {
        self.0.reset_remove(&vclock(c))
    }
    serde_boiler!();
}

#[derive(Clone)]
pub struct SGSet(pub GSet<u64>);
impl Sut for SGSet {
    type Op = u64;
    fn family() -> Family {
        Family::GSet
    }
    fn new() -> Self {
        SGSet(GSet::new())
    }
    fn gen(&self, _read: &Self, _actor: u8, d: &Desc, _via: u8, _env: &GenEnv) -> Result<Self::Op, String> {
        match d {
            Desc::Put(v) => Ok(*v),
            o => Err(format!("descriptor {:?} does not fit GSet", o)),
        }
    }
    fn obs(&self) -> Obs {
        let r = self.0.read();
        for v in 0..8u64 {
            if self.0.contains(&v) != r.contains(&v) {
                return Obs::Panic(format!("GSet::contains({}) disagrees with read()", v));
            }
        }
        let as_set: std::collections::BTreeSet<u64> = self.0.clone().into();
        if as_set != r {
            return Obs::Panic("From<GSet> for BTreeSet disagrees with read()".to_string());
        }
        Obs::SetU(r)
    }
    fn op_info(_op: &Self::Op) -> OpInfo {
        OpInfo::default()
    }
    fn de(s: &str) -> Result<Self, String> {
        serde_json::from_str(s).map(SGSet).map_err(|e| e.to_string())
    }
    fn op_same(a: &Self::Op, b: &Self::Op) -> bool {
        a == b
    }
    fn can_reset() -> bool {
        false
    }
    fn reset_remove(&mut self, _c: &Clk) {}
    serde_boiler!();
}

#[derive(Clone)]
pub struct SMaxReg(pub MaxReg<u64>);
impl Sut for SMaxReg {
    type Op = u64;
    fn family() -> Family {
        Family::MaxReg
    }
    fn new() -> Self {
        SMaxReg(MaxReg { val: 50 })
    }
    fn gen(&self, _read: &Self, _actor: u8, d: &Desc, _via: u8, _env: &GenEnv) -> Result<Self::Op, String> {
        match d {
            Desc::Put(v) => Ok(self.0.write(*v)),
            o => Err(format!("descriptor {:?} does not fit MaxReg", o)),
        }
    }
    fn obs(&self) -> Obs {
        Obs::Val(*self.0.read())
    }
    fn op_info(_op: &Self::Op) -> OpInfo {
        OpInfo::default()
    }
    fn de(s: &str) -> Result<Self, String> {
        serde_json::from_str(s).map(SMaxReg).map_err(|e| e.to_string())
    }
    fn op_same(a: &Self::Op, b: &Self::Op) -> bool {
        a == b
    }
    fn can_reset() -> bool {
        false
    }
    fn reset_remove(&mut self, _c: &Clk) {}
    serde_boiler!();
}

#[derive(Clone)]
pub struct SMinReg(pub MinReg<u64>);
impl Sut for SMinReg {
    type Op = u64;
    fn family() -> Family {
        Family::MinReg
    }
    fn new() -> Self {
        SMinReg(MinReg { val: 50 })
    }
    fn gen(&self, _read: &Self, _actor: u8, d: &Desc, _via: u8, _env: &GenEnv) -> Result<Self::Op, String> {
        match d {
            Desc::Put(v) => Ok(self.0.write(*v)),
            o => Err(format!("descriptor {:?} does not fit MinReg", o)),
        }
    }
    fn obs(&self) -> Obs {
        Obs::Val(*self.0.read())
    }
    fn op_info(_op: &Self::Op) -> OpInfo {
        OpInfo::default()
    }
    fn de(s: &str) -> Result<Self, String> {
        serde_json::from_str(s).map(SMinReg).map_err(|e| e.to_string())
    }
    fn op_same(a: &Self::Op, b: &Self::Op) -> bool {
        a == b
    }
    fn can_reset() -> bool {
        false
    }
    fn reset_remove(&mut self, _c: &Clk) {}
    serde_boiler!();
}

type Marker = (u64, u8, u64);
#[derive(Clone)]
pub struct SLww(pub LWWReg<u64, Marker>);
impl Sut for SLww {
    type Op = LWWReg<u64, Marker>;
    fn family() -> Family {
        Family::Lww
    }
    fn new() -> Self {
        SLww(LWWReg::default())
    }
    fn gen(&self, _read: &Self, actor: u8, d: &Desc, _via: u8, env: &GenEnv) -> Result<Self::Op, String> {
        match d {
            Desc::Lww { v, reuse_marker } => {
                let marker = match (reuse_marker, env.last_marker) {
                    (true, Some(m)) => m,
                    _ => (env.now, actor, env.seq),
                };
                Ok(LWWReg::new(*v, marker))
            }
            o => Err(format!("descriptor {:?} does not fit LWWReg", o)),
        }
    }
    fn obs(&self) -> Obs {
        Obs::Lww { val: self.0.val, marker: self.0.marker }
    }
    fn op_info(op: &Self::Op) -> OpInfo {
        // the marker is reported through `dot` + `rm_ctx` free slots: (time, actor, seq)
        let mut c = Clk::new();
        c.insert(0, op.marker.0 + 1);
        c.insert(1, op.marker.2 + 1);
        OpInfo { dot: Some((op.marker.1, op.val)), rm_ctx: Some(c), ..Default::default() }
    }
    fn de(s: &str) -> Result<Self, String> {
        serde_json::from_str(s).map(SLww).map_err(|e| e.to_string())
    }
    fn op_same(a: &Self::Op, b: &Self::Op) -> bool {
        a == b
    }
    fn can_reset() -> bool {
        false
    }
    fn reset_remove(&mut self, _c: &Clk) {}
    serde_boiler!();
}

// ------------------------------------------------------------------------------------------------
// sequences
// ------------------------------------------------------------------------------------------------

#[derive(Clone)]
pub struct SList(pub List<u64, u8>);
impl Sut for SList {
    type Op = self::lib::list::Op<u64, u8>;
    fn family() -> Family {
        Family::List
    }
    fn new() -> Self {
        SList(List::new())
    }
    fn gen(&self, _read: &Self, actor: u8, d: &Desc, _via: u8, _env: &GenEnv) -> Result<Self::Op, String> {
        match d {
            Desc::LIns { ix, v } => Ok(self.0.insert_index(*ix, *v, actor)),
            Desc::LApp { v } => Ok(self.0.append(*v, actor)),
            Desc::LDel { ix } => self.0.delete_index(*ix, actor).ok_or_else(|| "no element at index".to_string()),
            o => Err(format!("descriptor {:?} does not fit List", o)),
        }
    }
    fn obs(&self) -> Obs {
        let mut notes = vec![];
        let vals: Vec<u64> = self.0.read::<Vec<&u64>>().into_iter().copied().collect();
        if self.0.len() != vals.len() {
            notes.push(format!("len()={} but read() has {}", self.0.len(), vals.len()));
        }
        if self.0.is_empty() != vals.is_empty() {
            notes.push("is_empty() disagrees with read()".to_string());
        }
        let it: Vec<u64> = self.0.iter().copied().collect();
        if it != vals {
            notes.push("iter() disagrees with read()".to_string());
        }
        let mut prev = None;
        let n = vals.len();
        for (i, (id, v)) in self.0.iter_entries().enumerate() {
            if vals.get(i) != Some(v) {
                notes.push(format!("iter_entries()[{}] disagrees with read()", i));
            }
            if let Some(p) = prev {
                if !(p < id) {
                    notes.push(format!("identifiers not strictly increasing at {}", i));
                }
            }
            prev = Some(id);
            // the per-element look-ups are linear each: on long lists check both ends and a stride
            if n > 24 && i >= 4 && i + 4 < n && i % 9 != 0 {
                continue;
            }
            if self.0.position(i) != Some(v) {
                notes.push(format!("position({}) disagrees with read()", i));
            }
            if self.0.position_entry(id) != Some(i) {
                notes.push(format!("position_entry(id of {}) = {:?}", i, self.0.position_entry(id)));
            }
            if self.0.get(id) != Some(v) {
                notes.push(format!("get(id of {}) disagrees", i));
            }
        }
        if self.0.position(vals.len()).is_some() {
            notes.push("position(len) is Some".to_string());
        }
        if self.0.first() != vals.first() || self.0.last() != vals.last() {
            notes.push("first()/last() disagree with read()".to_string());
        }
        let into: Vec<u64> = self.0.clone().read_into();
        if into != vals {
            notes.push("read_into() disagrees with read()".to_string());
        }
        let via_into_iter: Vec<u64> = self.0.clone().into_iter().collect();
        if via_into_iter != vals {
            notes.push("into_iter() disagrees with read()".to_string());
        }
        if self.0.first_entry().map(|e| e.1) != vals.first() || self.0.last_entry().map(|e| e.1) != vals.last() {
            notes.push("first_entry()/last_entry() disagree with read()".to_string());
        }
        if let (Some((fid, _)), Some((lid, _))) = (self.0.first_entry(), self.0.last_entry()) {
            if self.0.position_entry(fid) != Some(0) || self.0.position_entry(lid) != Some(vals.len() - 1) {
                notes.push("position_entry of first/last entry is wrong".to_string());
            }
        }
        Obs::Seq { vals, notes }
    }
    fn op_info(op: &Self::Op) -> OpInfo {
        let d = op.dot();
        OpInfo { dot: Some((d.actor, d.counter)), ..Default::default() }
    }
    fn de(s: &str) -> Result<Self, String> {
        serde_json::from_str(s).map(SList).map_err(|e| e.to_string())
    }
    fn op_same(a: &Self::Op, b: &Self::Op) -> bool {
        a == b
    }
    fn can_reset() -> bool {
        false
    }
    fn reset_remove(&mut self, _c: &Clk) {}
    fn same(&self, other: &Self) -> bool {
        self.0 == other.0
    }
    fn dbg(&self) -> String {
        format!("{:?}", self.0)
    }
    fn ser(&self) -> Result<String, String> {
        serde_json::to_string(&self.0).map_err(|e| e.to_string())
    }
    fn ser_op(op: &Self::Op) -> Result<String, String> {
        serde_json::to_string(op).map_err(|e| e.to_string())
    }
    fn de_op(s: &str) -> Result<Self::Op, String> {
        serde_json::from_str(s).map_err(|e| e.to_string())
    }
    fn op_dbg(op: &Self::Op) -> String {
        format!("{:?}", op)
    }
    fn validate_op(&self, op: &Self::Op) -> Verdict {
        verdict(self.0.validate_op(op))
    }
    fn validate_merge(&self, _other: &Self) -> Verdict {
        Verdict::Ok
    }
    fn apply(&mut self, op: Self::Op) {
        self.0.apply(op)
    }
    fn can_merge() -> bool {
        false
    }
    fn merge(&mut self, _other: Self) {}
}

#[derive(Clone)]
pub struct SGList(pub GList<u64>);
impl Sut for SGList {
    type Op = self::lib::glist::Op<u64>;
    fn family() -> Family {
        Family::GList
    }
    fn new() -> Self {
        SGList(GList::new())
    }
    fn gen(&self, _read: &Self, _actor: u8, d: &Desc, _via: u8, _env: &GenEnv) -> Result<Self::Op, String> {
        let len = self.0.len();
        match d {
            Desc::GIns { ix, v } => Ok(self.0.insert((*ix).min(len), *v)),
            Desc::GAfter { ix, v } => match self.0.get(*ix) {
                Some(id) => Ok(self.0.insert_after(Some(id), *v)),
                None => Err("no element at index".to_string()),
            },
            Desc::GBefore { ix, v } => match self.0.get(*ix) {
                Some(id) => Ok(self.0.insert_before(Some(id), *v)),
                None => Err("no element at index".to_string()),
            },
            o => Err(format!("descriptor {:?} does not fit GList", o)),
        }
    }
    fn obs(&self) -> Obs {
        let mut notes = vec![];
        let vals: Vec<u64> = self.0.read::<Vec<&u64>>().into_iter().copied().collect();
        if self.0.len() != vals.len() || self.0.is_empty() != vals.is_empty() {
            notes.push("len()/is_empty() disagree with read()".to_string());
        }
        let mut prev = None;
        let n = vals.len();
        for (i, id) in self.0.iter().enumerate() {
            if vals.get(i) != Some(id.value()) {
                notes.push(format!("iter()[{}] disagrees with read()", i));
            }
            if !(n > 24 && i >= 4 && i + 4 < n && i % 9 != 0) && self.0.get(i) != Some(id) {
                notes.push(format!("get({}) disagrees with iter()", i));
            }
            if let Some(p) = prev {
                if !(p < id) {
                    notes.push(format!("identifiers not strictly increasing at {}", i));
                }
            }
            prev = Some(id);
        }
        if self.0.first().map(|i| i.value()) != vals.first() || self.0.last().map(|i| i.value()) != vals.last() {
            notes.push("first()/last() disagree with read()".to_string());
        }
        let into: Vec<u64> = self.0.clone().read_into();
        if into != vals {
            notes.push("read_into() disagrees with read()".to_string());
        }
        Obs::Seq { vals, notes }
    }
    fn op_info(_op: &Self::Op) -> OpInfo {
        OpInfo::default()
    }
    fn de(s: &str) -> Result<Self, String> {
        serde_json::from_str(s).map(SGList).map_err(|e| e.to_string())
    }
    fn op_same(a: &Self::Op, b: &Self::Op) -> bool {
        a == b
    }
    fn can_reset() -> bool {
        false
    }
    fn reset_remove(&mut self, _c: &Clk) {}
    serde_boiler!();
}

// ------------------------------------------------------------------------------------------------
// MerkleReg
// ------------------------------------------------------------------------------------------------

fn hex(h: &[u8; 32]) -> String {
    h.iter().take(8).map(|b| format!("{:02x}", b)).collect()
}
fn merkle_val(s: &str) -> u64 {
    s.trim_start_matches('v').parse().unwrap_or(u64::MAX)
}

#[derive(Clone)]
pub struct SMerkle(pub MerkleReg<String>);
impl Sut for SMerkle {
    type Op = Node<String>;
    fn family() -> Family {
        Family::Merkle
    }
    fn new() -> Self {
        SMerkle(MerkleReg::new())
    }
    fn gen(&self, read: &Self, _actor: u8, d: &Desc, _via: u8, _env: &GenEnv) -> Result<Self::Op, String> {
        match d {
            Desc::MWrite { v, mask } => {
                let heads: Vec<[u8; 32]> = read.0.read().hashes().into_iter().collect();
                let children: BTreeSet<[u8; 32]> =
                    heads.into_iter().enumerate().filter(|(i, _)| (mask >> (i % 32)) & 1 == 1).map(|(_, h)| h).collect();
                Ok(self.0.write(format!("v{}", v), children))
            }
            o => Err(format!("descriptor {:?} does not fit MerkleReg", o)),
        }
    }
    fn obs(&self) -> Obs {
        let mut notes = vec![];
        let r = self.0.read();
        let heads: BTreeSet<String> = r.hashes().iter().map(hex).collect();
        let head_vals: BTreeSet<u64> = r.values().map(|s| merkle_val(s)).collect();
        if r.is_empty() != heads.is_empty() {
            notes.push("read().is_empty() disagrees with hashes()".to_string());
        }
        if r.nodes().count() != heads.len() || r.hashes_and_nodes().count() != heads.len() {
            notes.push("read().nodes() count disagrees with hashes()".to_string());
        }
        for (h, n) in r.hashes_and_nodes() {
            if n.hash() != h {
                notes.push("read(): node under a hash that is not its own".to_string());
            }
        }
        // the visible DAG: hash -> (value, children), with per-node navigation checks
        let mut dag: BTreeMap<String, (u64, BTreeSet<String>)> = BTreeMap::new();
        let all: Vec<&Node<String>> = self.0.all_nodes().collect();
        for n in all.iter() {
            dag.insert(hex(&n.hash()), (merkle_val(&n.value), n.children.iter().map(hex).collect()));
        }
        if dag.len() != self.0.num_nodes() {
            notes.push(format!("all_nodes() has {} distinct nodes, num_nodes()={}", dag.len(), self.0.num_nodes()));
        }
        for n in all.iter() {
            let h = n.hash();
            match self.0.node(h) {
                Some(x) if x == *n => {}
                _ => notes.push(format!("node({}) does not return the node", hex(&h))),
            }
            let ch: BTreeSet<String> = self.0.children(h).hashes().iter().map(hex).collect();
            let expect: BTreeSet<String> = n.children.iter().map(hex).collect();
            if ch != expect {
                notes.push(format!("children({}) = {:?}, node lists {:?}", hex(&h), ch, expect));
            }
            let ps: BTreeSet<String> = self.0.parents(h).hashes().iter().map(hex).collect();
            let expect_ps: BTreeSet<String> =
                all.iter().filter(|p| p.children.contains(&h)).map(|p| hex(&p.hash())).collect();
            if ps != expect_ps {
                notes.push(format!("parents({}) = {:?}, expected {:?}", hex(&h), ps, expect_ps));
            }
        }
        let mut full = notes;
        full.push(format!("dag={:?}", dag));
        Obs::Merkle { heads, head_vals, nodes: self.0.num_nodes(), orphans: self.0.num_orphans(), notes: full }
    }
    fn op_info(op: &Self::Op) -> OpInfo {
        // hash and children are reported through the clock slots as hex in `inner_dots`-free form:
        // engine uses op_dbg for merkle ops; see model_merkle.
        let _ = op;
        OpInfo::default()
    }
    fn de(s: &str) -> Result<Self, String> {
        serde_json::from_str(s).map(SMerkle).map_err(|e| e.to_string())
    }
    fn op_same(a: &Self::Op, b: &Self::Op) -> bool {
        a == b
    }
    fn can_reset() -> bool {
        false
    }
    fn reset_remove(&mut self, _c: &Clk) {}
    fn op_dbg(op: &Self::Op) -> String {
        // canonical: hash|value|children — parsed by the MerkleReg model
        let ch: Vec<String> = op.children.iter().map(hex).collect();
        format!("{}|{}|{}", hex(&op.hash()), merkle_val(&op.value), ch.join(","))
    }
    fn same(&self, other: &Self) -> bool {
        self.0 == other.0
    }
    fn dbg(&self) -> String {
        format!("{:?}", self.0)
    }
    fn ser(&self) -> Result<String, String> {
        serde_json::to_string(&self.0).map_err(|e| e.to_string())
    }
    fn ser_op(op: &Self::Op) -> Result<String, String> {
        serde_json::to_string(op).map_err(|e| e.to_string())
    }
    fn de_op(s: &str) -> Result<Self::Op, String> {
        serde_json::from_str(s).map_err(|e| e.to_string())
    }
    fn validate_op(&self, op: &Self::Op) -> Verdict {
        verdict(self.0.validate_op(op))
    }
    fn validate_merge(&self, other: &Self) -> Verdict {
        verdict(self.0.validate_merge(&other.0))
    }
    fn apply(&mut self, op: Self::Op) {
        self.0.apply(op)
    }
    fn can_merge() -> bool {
        true
    }
    fn merge(&mut self, other: Self) {
        self.0.merge(other.0)
    }
}
