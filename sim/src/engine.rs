//! The simulation kernel (DESIGN §2): a world of replicas, a network of in-flight ops and states,
//! per-node disks, and the oracles evaluated after every event. Execution is a pure function of
//! (config, event list); the generator in `gen.rs` only decides which event comes next.

use crate::model::{self, AInfo, AOp, Leaf, ResolveCtx, SeqOracle};
use crate::sut::Sut;
use crate::types::*;
use std::collections::{BTreeMap, BTreeSet, HashMap};
use std::panic::{catch_unwind, AssertUnwindSafe};

pub const UNIV: u8 = 4;

pub fn guard<T>(f: impl FnOnce() -> T) -> Result<T, String> {
    catch_unwind(AssertUnwindSafe(f)).map_err(|e| {
        if let Some(s) = e.downcast_ref::<&str>() {
            s.to_string()
        } else if let Some(s) = e.downcast_ref::<String>() {
            s.clone()
        } else {
            "panic".to_string()
        }
    })
}

pub struct OpRec<S: Sut> {
    pub tag: u32,
    pub author: usize,
    /// 1-based position among all ops of the author
    pub seq: u32,
    pub op: S::Op,
    /// what remote replicas apply: the op itself, or its serde_json round trip when the wire is JSON
    pub wire_op: S::Op,
    pub desc: Desc,
}

#[derive(Clone)]
pub enum Blob<S> {
    Json(String),
    Mem(S),
    /// serde_json text plus the in-memory value it was made from: used outside the C19 scenarios, where a
    /// failure of serde itself is not the property under test (the value is used if the text does not read
    /// back) but a lossy read-back must show through the property's own oracles
    Both(String, S),
}

pub struct Held<S> {
    pub state: S,
    pub k: KSet,
    pub issued_at: u32,
}

#[derive(Clone, Debug)]
pub enum JEntry {
    Op(usize),
    State(u32),
}

pub struct Flight<S> {
    pub src: usize,
    pub blob: Blob<S>,
    pub k: KSet,
}

pub struct NodeSt<S: Sut> {
    pub state: Option<S>,
    pub k: KSet,
    pub held: Option<Held<S>>,
    pub issued: u32,
    pub shadow: Option<S>,
    /// the in-memory state a crashed node had (with its knowledge set and the journal entries lost by the crash)
    pub ghost: Option<(S, KSet, Vec<JEntry>)>,
    pub snap: Option<(Blob<S>, KSet)>,
    pub journal: Vec<JEntry>,
    pub skew: i64,
    pub stalled: bool,
    pub pending: BTreeSet<usize>,
    pub last_obs: Option<Obs>,
    pub last_marker: Option<(u64, u8, u64)>,
    pub restarted: bool,
}

#[derive(Clone, Debug, Default)]
pub struct Stats {
    pub events: u64,
    pub edits: u64,
    pub delivers: u64,
    pub dup_delivers: u64,
    pub merges: u64,
    pub stale_merges: u64,
    pub crashes: u64,
    pub restarts: u64,
    pub bounces: u64,
    pub snapshots: u64,
    pub drops: u64,
    pub partitions: u64,
    pub stalls: u64,
    pub clock_jumps: u64,
    pub syncs: u64,
    pub held_edits: u64,
    pub overtaking: u64,
    pub probes: u64,
    pub probe_cases: u64,
    pub sim_time: u64,
    pub removes: u64,
    pub journal_lost: u64,
    pub checks: u64,
    pub noncausal_gen: u64,
    pub misuse_clashes: u64,
    pub foreign_reads: u64,
    pub stale_restarts: u64,
}

impl Stats {
    pub fn add(&mut self, o: &Stats) {
        self.events += o.events;
        self.edits += o.edits;
        self.delivers += o.delivers;
        self.dup_delivers += o.dup_delivers;
        self.merges += o.merges;
        self.stale_merges += o.stale_merges;
        self.crashes += o.crashes;
        self.restarts += o.restarts;
        self.bounces += o.bounces;
        self.snapshots += o.snapshots;
        self.drops += o.drops;
        self.partitions += o.partitions;
        self.stalls += o.stalls;
        self.clock_jumps += o.clock_jumps;
        self.syncs += o.syncs;
        self.held_edits += o.held_edits;
        self.overtaking += o.overtaking;
        self.probes += o.probes;
        self.probe_cases += o.probe_cases;
        self.sim_time += o.sim_time;
        self.removes += o.removes;
        self.journal_lost += o.journal_lost;
        self.checks += o.checks;
        self.noncausal_gen += o.noncausal_gen;
        self.misuse_clashes += o.misuse_clashes;
        self.foreign_reads += o.foreign_reads;
        self.stale_restarts += o.stale_restarts;
    }
    pub fn faults_fired(&self) -> u64 {
        self.dup_delivers + self.stale_merges + self.crashes + self.bounces + self.drops + self.partitions + self.stalls + self.clock_jumps + self.overtaking + self.journal_lost
    }
}

pub struct World<S: Sut> {
    pub cfg: Config,
    pub family: Family,
    pub nodes: Vec<NodeSt<S>>,
    pub ops: Vec<OpRec<S>>,
    pub aops: Vec<AOp>,
    pub tag_ix: HashMap<u32, usize>,
    pub flights: BTreeMap<u32, Flight<S>>,
    pub now: u64,
    pub partition: u32,
    pub ktable: HashMap<KSet, (Obs, S, usize)>,
    pub seq_oracle: SeqOracle,
    pub step: usize,
    pub stats: Stats,
    pub log: Option<Vec<String>>,
    pub soft: Vec<Failure>,
    pub merged: bool,
    pub state_hashes: BTreeSet<u64>,
}

pub type Res = Result<bool, Failure>;

impl<S: Sut> World<S> {
    pub fn new(cfg: &Config, log: bool) -> Self {
        let nodes = (0..cfg.nodes)
            .map(|_| NodeSt {
                state: Some(S::new()),
                k: 0,
                held: None,
                issued: 0,
                shadow: None,
                ghost: None,
                snap: None,
                journal: vec![],
                skew: 0,
                stalled: false,
                pending: BTreeSet::new(),
                last_obs: None,
                last_marker: None,
                restarted: false,
            })
            .collect();
        World {
            cfg: cfg.clone(),
            family: S::family(),
            nodes,
            ops: vec![],
            aops: vec![],
            tag_ix: HashMap::new(),
            flights: BTreeMap::new(),
            now: 1,
            partition: 0,
            ktable: HashMap::new(),
            seq_oracle: SeqOracle::default(),
            step: 0,
            stats: Stats::default(),
            log: if log { Some(vec![]) } else { None },
            soft: vec![],
            merged: false,
            state_hashes: BTreeSet::new(),
        }
    }

    /// A false rejection by Map::validate_op of the nested-value kind (recorded finding F5) does not change
    /// any state: it is recorded softly so that the run goes on and everything after it is still judged
    /// (the whole list of soft failures is compared with the pinned baseline, see run::judge).
    pub fn soft_validate(&mut self, clause: &str, v: &Verdict, expected_ok: bool, detail: String) -> bool {
        let is_map = matches!(self.family, Family::Dotted(Shape::Map(_)));
        let nested_kind = matches!(v, Verdict::Err { kind, .. } if kind == "Value" || kind == "SourceOrder");
        if is_map && expected_ok && nested_kind {
            self.soft.push(Failure { clause: clause.to_string(), step: self.step, detail });
            true
        } else {
            false
        }
    }
    fn fail<T>(&self, clause: &str, detail: String) -> Result<T, Failure> {
        Err(Failure { clause: clause.to_string(), step: self.step, detail })
    }
    fn logline(&mut self, s: String) {
        if let Some(l) = self.log.as_mut() {
            l.push(s);
        }
    }
    pub fn actor_of(&self, node: usize) -> u8 {
        self.cfg.actor_ids.get(node).copied().unwrap_or(node as u8)
    }
    pub fn up(&self, n: usize) -> bool {
        n < self.nodes.len() && self.nodes[n].state.is_some()
    }
    pub fn all_k(&self) -> KSet {
        if self.ops.is_empty() {
            0
        } else {
            (!0u128) >> (128 - self.ops.len())
        }
    }
    pub fn same_side(&self, a: usize, b: usize) -> bool {
        ((self.partition >> a) & 1) == ((self.partition >> b) & 1)
    }
    /// everything an op of `k` depends on — what its author had applied and what the context it was built
    /// from had observed — is in `k` too
    pub fn causally_closed(&self, k: KSet) -> bool {
        self.aops.iter().enumerate().all(|(i, o)| !has(k, i) || ((o.k_gen | o.k_read) & !k) == 0)
    }
    pub fn deliverable(&self, node: usize, ix: usize) -> bool {
        let k = self.nodes[node].k;
        if has(k, ix) {
            return true; // redelivery
        }
        match self.cfg.disc {
            Disc::Any => true,
            Disc::Causal => ((self.aops[ix].k_gen | self.aops[ix].k_read) & !k) == 0,
            Disc::Fifo => {
                let a = self.ops[ix].author;
                let s = self.ops[ix].seq;
                self.ops.iter().enumerate().all(|(j, o)| o.author != a || o.seq >= s || has(k, j))
            }
        }
    }

    /// C19 scenarios judge serde itself; elsewhere JSON is just the durable / wire form
    pub fn serde_strict(&self) -> bool {
        self.cfg.on("serde.probe") || self.cfg.on("restart.ghost")
    }

    fn decode(&self, b: &Blob<S>) -> Result<S, Failure> {
        match b {
            Blob::Mem(s) => Ok(s.clone()),
            Blob::Both(t, s) => match guard(|| S::de(t)) {
                Ok(Ok(x)) => Ok(x),
                _ => Ok(s.clone()),
            },
            Blob::Json(t) => match guard(|| S::de(t)) {
                Ok(Ok(s)) => Ok(s),
                Ok(Err(e)) => self.fail("serde.de", format!("state does not deserialise: {}", dq(e))),
                Err(p) => self.fail("serde.de", format!("panic while deserialising a state: {}", p)),
            },
        }
    }

    /// serialise a state for wire/disk; a failure is recorded softly and the in-memory clone is used
    fn encode(&mut self, s: &S, what: &str) -> Blob<S> {
        if !self.cfg.json_wire {
            return Blob::Mem(s.clone());
        }
        if !self.serde_strict() {
            return match guard(|| s.ser()) {
                Ok(Ok(t)) => Blob::Both(t, s.clone()),
                _ => Blob::Mem(s.clone()),
            };
        }
        match guard(|| s.ser()) {
            Ok(Ok(t)) => Blob::Json(t),
            Ok(Err(e)) => {
                let holds_pending = has_pending(&s.dbg());
                self.soft.push(Failure {
                    clause: "serde.ser".into(),
                    step: self.step,
                    detail: format!("{} cannot be serialised: {} (pending removes held: {})", what, e, holds_pending),
                });
                Blob::Mem(s.clone())
            }
            Err(p) => {
                self.soft.push(Failure { clause: "serde.ser".into(), step: self.step, detail: format!("panic serialising {}: {}", what, p) });
                Blob::Mem(s.clone())
            }
        }
    }

    pub fn state_of(&self, r: &StateRef) -> Option<(Result<S, Failure>, KSet)> {
        match r {
            StateRef::Node(n) => self.nodes.get(*n).and_then(|x| x.state.as_ref().map(|s| (Ok(s.clone()), x.k))),
            StateRef::Flight(g) => self.flights.get(g).map(|f| (self.decode(&f.blob), f.k)),
            StateRef::Disk(n) => self.nodes.get(*n).and_then(|x| x.snap.as_ref().map(|(b, k)| (self.decode(b), *k))),
        }
    }

    // ---------------------------------------------------------------------------------------------
    // oracles evaluated after every state change
    // ---------------------------------------------------------------------------------------------

    pub fn check_node(&mut self, n: usize) -> Result<(), Failure> {
        self.stats.checks += 1;
        let k = self.nodes[n].k;
        let st = match self.nodes[n].state.as_ref() {
            Some(s) => s,
            None => return Ok(()),
        };
        let obs = match guard(|| st.obs()) {
            Ok(o) => o,
            Err(p) => return self.fail("panic.read", format!("node {} panicked while being read: {}", n, p)),
        };
        if let Some(l) = self.log.as_mut() {
            l.push(format!("  n{} K={:x} {}", n, k, obs.show()));
        }
        if self.cfg.on("ctx.consistent") {
            let notes: &[String] = match &obs {
                Obs::Dotted { notes, .. } | Obs::Num { notes, .. } | Obs::Seq { notes, .. } => notes,
                Obs::Merkle { notes, .. } => &notes[..notes.len().saturating_sub(1)],
                _ => &[],
            };
            if !notes.is_empty() {
                return self.fail("ctx.consistent", format!("node {}: read entry points disagree: {:?}", n, notes));
            }
        }
        if self.cfg.on("model") || self.cfg.on("model.vals") {
            if let Some(exp) = model::expect(&self.family, &self.aops, k, UNIV) {
                let (a, b) = if self.cfg.on("model") { (obs.clone(), exp) } else { (strip_all_ctx(&obs), strip_all_ctx(&exp)) };
                if a != b {
                    return self.fail("model", format!("node {} K={:x}\n  impl : {}\n  model: {}", n, k, a.show(), b.show()));
                }
            } else if let Obs::Seq { vals, .. } = &obs {
                let alive = model::seq_alive(&self.aops, k);
                let got: BTreeSet<u64> = vals.iter().copied().collect();
                if got != alive || got.len() != vals.len() {
                    return self.fail("model", format!("node {} K={:x}\n  impl : {:?}\n  model elements: {:?}", n, k, vals, alive));
                }
            }
        }
        if self.cfg.on("model.ctx") {
            if let Some(exp) = model::expect(&self.family, &self.aops, k, UNIV) {
                let (a, b) = (ctx_only(&obs), ctx_only(&exp));
                if a != b {
                    return self.fail("model.ctx", format!("node {} K={:x}: contexts differ from the witnesses the model derives\n  impl : {}\n  model: {}", n, k, a.show(), b.show()));
                }
            }
        }
        if self.cfg.on("pending") && matches!(self.family, Family::Dotted(Shape::Set) | Family::Dotted(Shape::Map(_))) {
            let exp = model::pending(&self.aops, k);
            match pending_table(&st.dbg()) {
                Some(t) => {
                    if t != exp {
                        return self.fail("pending", format!("node {} K={:x}: pending removes held {:?}, the removes whose context is not yet covered are {:?}", n, k, t, exp));
                    }
                }
                None => return self.fail("pending", format!("node {}: the pending-remove table cannot be read off the Debug rendering {}", n, dq(st.dbg()))),
            }
        }
        if self.cfg.on("seq.order") {
            if let Obs::Seq { vals, .. } = &obs {
                if let Err(e) = self.seq_oracle.observe(n, vals) {
                    return self.fail("seq.order", format!("node {}: {}", n, e));
                }
            }
        }
        if self.cfg.on("mono") && !self.nodes[n].restarted {
            if let (Some(Obs::Num { val: prev, .. }), Obs::Num { val: cur, .. }) = (&self.nodes[n].last_obs, &obs) {
                if self.family == Family::GCounter {
                    let (p, c): (i128, i128) = (prev.parse().unwrap_or(0), cur.parse().unwrap_or(0));
                    if c < p {
                        return self.fail("mono", format!("node {}: GCounter read went from {} to {}", n, p, c));
                    }
                }
            }
        }
        let want_obs = self.cfg.on("ktable.obs");
        let want_eq = self.cfg.on("ktable.eq");
        if want_obs || want_eq {
            let mine = obs.strip_nested();
            if let Some((o2, s2, at)) = self.ktable.get(&k) {
                if want_obs && *o2 != mine {
                    return self.fail(
                        "ktable.obs",
                        format!("node {} K={:x} reads differently from the replica that had the same knowledge at step {}\n  now : {}\n  then: {}", n, k, at, mine.show(), o2.show()),
                    );
                }
                if want_eq {
                    match guard(|| st.same(s2)) {
                        Ok(true) => {}
                        Ok(false) => {
                            return self.fail(
                                "ktable.eq",
                                format!("node {} K={:x} is not == to the replica that had the same knowledge at step {}\n  now : {}\n  then: {}", n, k, at, dq(st.dbg()), dq(s2.dbg())),
                            )
                        }
                        Err(p) => return self.fail("ktable.eq", format!("node {} K={:x}: == panicked: {}", n, k, p)),
                    }
                }
            } else {
                self.ktable.insert(k, (mine, st.clone(), self.step));
            }
        }
        if let Some(sh) = self.nodes[n].shadow.as_ref() {
            let so = match guard(|| sh.obs()) {
                Ok(o) => o,
                Err(p) => return self.fail("shadow", format!("shadow of node {} panicked: {}", n, p)),
            };
            if so != obs {
                return self.fail("shadow", format!("node {} (restored from serialised form) reads differently from its never-serialised twin\n  restored: {}\n  twin    : {}", n, obs.show(), so.show()));
            }
            match guard(|| st.same(sh)) {
                Ok(true) => {}
                Ok(false) => return self.fail("shadow", format!("node {} (restored) is not == to its twin\n  restored: {}\n  twin    : {}", n, dq(st.dbg()), dq(sh.dbg()))),
                Err(p) => return self.fail("shadow", format!("node {}: == with twin panicked: {}", n, p)),
            }
        }
        self.nodes[n].last_obs = Some(obs);
        self.nodes[n].restarted = false;
        // distinct-state measure: hash of the global abstract state
        let mut h = 0xcbf29ce484222325u64;
        for x in self.nodes.iter() {
            h = crate::rng::mix(h, (x.k as u64) ^ ((x.k >> 64) as u64).rotate_left(7) ^ if x.state.is_some() { 1 } else { 0 });
        }
        self.state_hashes.insert(h);
        Ok(())
    }

    // ---------------------------------------------------------------------------------------------
    // kernel events
    // ---------------------------------------------------------------------------------------------

    pub fn exec(&mut self, ev: &Ev) -> Res {
        self.step += 1;
        let mut r = self.exec_inner(ev);
        if let (Ok(true), true) = (&r, self.cfg.bounce_every) {
            let touched = match ev {
                Ev::Edit { node, .. } | Ev::Deliver { node, .. } | Ev::Restart { node, .. } => Some(*node),
                Ev::DeliverState { dst, .. } => Some(*dst),
                _ => None,
            };
            if let Some(n) = touched {
                if let Err(f) = self.do_bounce(n) {
                    r = Err(f);
                }
            }
        }
        if let (Ok(true), true) = (&r, self.cfg.redundancy_every) {
            let touched = match ev {
                Ev::Edit { node, .. } | Ev::Deliver { node, .. } | Ev::Restart { node, .. } => Some(*node),
                Ev::DeliverState { dst, .. } => Some(*dst),
                _ => None,
            };
            if let Some(n) = touched {
                if let Err(f) = crate::probes::run_probe(self, &Probe::Redundancy { node: n }) {
                    r = Err(f);
                }
            }
        }
        match r {
            Ok(true) => self.stats.events += 1,
            // an event that does not apply leaves no trace: steps count applied events only, so that a
            // recorded history replays with the same step numbers
            Ok(false) => self.step -= 1,
            Err(_) => {}
        }
        r
    }

    fn exec_inner(&mut self, ev: &Ev) -> Res {
        if self.log.is_some() {
            let l = format!("#{} {:?}", self.step, ev);
            self.logline(l);
        }
        match ev {
            Ev::Tick { dt } => {
                self.now += dt;
                self.stats.sim_time += dt;
                Ok(true)
            }
            Ev::ClockJump { node, delta } => {
                if *node >= self.nodes.len() {
                    return Ok(false);
                }
                self.nodes[*node].skew += delta;
                self.stats.clock_jumps += 1;
                Ok(true)
            }
            Ev::Read { node, from } => {
                if !self.up(*node) {
                    return Ok(false);
                }
                match from {
                    Some(f) if *f != *node => {
                        // a context read at another replica may only feed removes (an add context from there
                        // could re-spend a dot), and never under causal delivery, whose premise is that an
                        // op depends only on what its author had applied
                        if !self.up(*f) || self.cfg.disc == Disc::Causal {
                            return Ok(false);
                        }
                        let (st, k) = (self.nodes[*f].state.clone().unwrap(), self.nodes[*f].k);
                        self.nodes[*node].held = Some(Held { state: st, k, issued_at: u32::MAX });
                        self.stats.foreign_reads += 1;
                    }
                    _ => {
                        let x = &mut self.nodes[*node];
                        x.held = Some(Held { state: x.state.clone().unwrap(), k: x.k, issued_at: x.issued });
                    }
                }
                Ok(true)
            }
            Ev::Edit { node, tag, desc, held, via } => self.do_edit(*node, *tag, desc, *held, *via),
            Ev::Deliver { node, tag } => self.do_deliver(*node, *tag),
            Ev::Gossip { src, gid } => {
                if !self.up(*src) || !S::can_merge() || self.flights.contains_key(gid) {
                    return Ok(false);
                }
                let s = self.nodes[*src].state.clone().unwrap();
                let blob = self.encode(&s, "a gossiped state");
                self.flights.insert(*gid, Flight { src: *src, blob, k: self.nodes[*src].k });
                Ok(true)
            }
            Ev::DeliverState { dst, gid } => self.do_deliver_state(*dst, *gid),
            Ev::Snapshot { node } => {
                if !self.up(*node) {
                    return Ok(false);
                }
                let s = self.nodes[*node].state.clone().unwrap();
                let before = self.soft.len();
                let blob = self.encode(&s, "a disk snapshot");
                if self.soft.len() > before {
                    // the snapshot could not be written: the old snapshot and the journal stay
                    return Ok(true);
                }
                let k = self.nodes[*node].k;
                self.nodes[*node].snap = Some((blob, k));
                self.nodes[*node].journal.clear();
                self.stats.snapshots += 1;
                Ok(true)
            }
            Ev::Crash { node, lose_tail } => {
                if !self.up(*node) {
                    return Ok(false);
                }
                let me = *node;
                let mut lost = 0;
                {
                    let ops = &self.ops;
                    let x = &mut self.nodes[me];
                    let old = x.state.take().unwrap();
                    x.held = None;
                    x.shadow = None;
                    x.last_obs = None;
                    // un-synced tail: entries after the node's last own op may be lost
                    let mut lost_entries = vec![];
                    while lost < *lose_tail {
                        match x.journal.last() {
                            Some(JEntry::Op(ix)) if ops[*ix].author != me => {
                                lost_entries.push(x.journal.pop().unwrap());
                                lost += 1;
                            }
                            Some(JEntry::State(_)) => {
                                lost_entries.push(x.journal.pop().unwrap());
                                lost += 1;
                            }
                            _ => break,
                        }
                    }
                    lost_entries.reverse();
                    x.ghost = Some((old, x.k, lost_entries));
                }
                self.stats.journal_lost += lost as u64;
                self.stats.crashes += 1;
                Ok(true)
            }
            Ev::Restart { node, stale } => self.do_restart(*node, *stale),
            Ev::Bounce { node } => self.do_bounce(*node),
            Ev::DropMsg { node, tag } => {
                let ix = match self.tag_ix.get(tag) {
                    Some(i) => *i,
                    None => return Ok(false),
                };
                if *node >= self.nodes.len() || !self.nodes[*node].pending.remove(&ix) {
                    return Ok(false);
                }
                self.stats.drops += 1;
                Ok(true)
            }
            Ev::Partition { mask } => {
                self.partition = *mask;
                self.stats.partitions += 1;
                Ok(true)
            }
            Ev::Heal => {
                self.partition = 0;
                Ok(true)
            }
            Ev::Stall { node } => {
                if *node >= self.nodes.len() {
                    return Ok(false);
                }
                self.nodes[*node].stalled = true;
                self.stats.stalls += 1;
                Ok(true)
            }
            Ev::Resume { node } => {
                if *node >= self.nodes.len() {
                    return Ok(false);
                }
                self.nodes[*node].stalled = false;
                Ok(true)
            }
            Ev::Sync { src, dst } => {
                if *src >= self.nodes.len() || *dst >= self.nodes.len() || src == dst {
                    return Ok(false);
                }
                let missing = self.nodes[*src].k & !self.nodes[*dst].k;
                for i in 0..self.ops.len() {
                    if has(missing, i) {
                        self.nodes[*dst].pending.insert(i);
                    }
                }
                self.stats.syncs += 1;
                Ok(true)
            }
            Ev::Probe(p) => {
                self.stats.probes += 1;
                crate::probes::run_probe(self, p)
            }
        }
    }

    fn do_edit(&mut self, node: usize, tag: u32, desc: &Desc, held: bool, via: u8) -> Res {
        if !self.up(node) || self.ops.len() >= MAX_OPS || self.tag_ix.contains_key(&tag) {
            return Ok(false);
        }
        let actor = self.actor_of(node);
        let cur = self.nodes[node].state.clone().unwrap();
        let k_gen = self.nodes[node].k;
        // which read does the client use?
        let needs_fresh_dot = leaf_spends_context(desc);
        let mut use_held = false;
        // a read taken at another replica only ever feeds the remove context of a dot-based edit
        let foreign_ok = matches!(desc, Desc::D(_)) && !needs_fresh_dot;
        if held && !(self.nodes[node].held.as_ref().map_or(false, |h| h.issued_at == u32::MAX) && !foreign_ok) {
            if let Some(h) = self.nodes[node].held.as_ref() {
                use_held = !needs_fresh_dot || h.issued_at == self.nodes[node].issued || (self.cfg.misuse && h.issued_at != u32::MAX);
            }
        }
        let (read_state, k_read) = if use_held {
            let h = self.nodes[node].held.as_ref().unwrap();
            (h.state.clone(), h.k)
        } else {
            (cur.clone(), k_gen)
        };
        let t = (self.now as i64 + self.nodes[node].skew).max(1) as u64;
        let seq = self.nodes[node].issued as u64 + 1;
        let env = GenEnv { now: t, last_marker: self.nodes[node].last_marker, seq };
        let op = match guard(|| cur.gen(&read_state, actor, desc, via, &env)) {
            Ok(Ok(op)) => op,
            Ok(Err(_)) => return Ok(false),
            Err(p) => return self.fail("panic.gen", format!("node {}: the API panicked while building {:?}: {}", node, desc, p)),
        };
        let op_dbg = S::op_dbg(&op);
        let marker = match desc {
            Desc::Lww { reuse_marker: true, .. } if env.last_marker.is_some() => env.last_marker.unwrap(),
            _ => (t, actor, seq),
        };
        let origin_obs = self.nodes[node].last_obs.clone().unwrap_or(Obs::Val(0));
        let origin_obs = if self.nodes[node].last_obs.is_none() { guard(|| cur.obs()).unwrap_or(origin_obs) } else { origin_obs };
        let aop = match model::resolve(&self.family, &self.aops, desc, &ResolveCtx { author: actor, k_gen, k_read, origin_obs: &origin_obs, op_dbg: &op_dbg, marker }) {
            Ok(a) => a,
            Err(_) => return Ok(false),
        };
        if self.log.is_some() {
            let l = format!("  op{} (tag {}) = {}{}", self.ops.len(), tag, op_dbg, if use_held { "  [held read]" } else { "" });
            self.logline(l);
        }
        // C07: contexts inside the op, freshness of the dot
        if self.cfg.on("ctx.op") {
            if let Some(exp) = model::expected_op_info(&self.family, &self.aops, &aop) {
                let got = S::op_info(&op);
                if got.dot != exp.dot {
                    return self.fail("ctx.op", format!("node {} op {}: derived dot {:?}, the actor's next unused dot is {:?}", node, op_dbg, got.dot, exp.dot));
                }
                if got.inner_dots.iter().any(|d| Some(*d) != got.dot) || got.inner_dots.len() != exp.inner_dots.len() {
                    return self.fail("ctx.op", format!("node {} op {}: nested dots {:?} differ from {:?}", node, op_dbg, got.inner_dots, exp.inner_dots));
                }
                if got.rm_ctx != exp.rm_ctx {
                    return self.fail("ctx.op", format!("node {} op {}: remove context {:?}, surviving witnesses read are {:?}", node, op_dbg, got.rm_ctx, exp.rm_ctx));
                }
                if got.write_ctx != exp.write_ctx {
                    return self.fail("ctx.op", format!("node {} op {}: write context {:?}, expected {:?}", node, op_dbg, got.write_ctx, exp.write_ctx));
                }
            }
            if !self.cfg.misuse && matches!(self.family, Family::Dotted(_) | Family::VClock | Family::List) {
                if let Some(n) = aop.dot {
                    if self.aops.iter().any(|o| o.author == actor && o.dot == Some(n)) {
                        return self.fail("ctx.op", format!("node {}: dot ({},{}) was already spent", node, actor, n));
                    }
                }
            }
        }
        if self.cfg.on("validate.origin") {
            match guard(|| cur.validate_op(&op)) {
                Ok(Verdict::Ok) => {}
                Ok(v) => {
                    if !(self.cfg.misuse && matches!(desc, Desc::Lww { reuse_marker: true, .. })) {
                        let d = format!("node {} rejects the op it just produced through the API: {} -> {}, expected Ok", node, op_dbg, v.show());
                        if !self.soft_validate("validate.origin", &v, true, d.clone()) {
                            return self.fail("validate.origin", d);
                        }
                    }
                }
                Err(p) => return self.fail("validate.origin", format!("validate_op panicked: {}", p)),
            }
        }
        // wire form
        let wire_op = if self.cfg.json_wire && !self.serde_strict() {
            // JSON as plain transport: use what the peer would read back, or the op itself if serde fails
            match guard(|| S::ser_op(&op)) {
                Ok(Ok(t)) => match guard(|| S::de_op(&t)) {
                    Ok(Ok(o2)) => o2,
                    _ => op.clone(),
                },
                _ => op.clone(),
            }
        } else if self.cfg.json_wire {
            match guard(|| S::ser_op(&op)) {
                Ok(Ok(t)) => match guard(|| S::de_op(&t)) {
                    Ok(Ok(o2)) => {
                        if !S::op_same(&op, &o2) {
                            return self.fail("serde.op", format!("op {} changed in a serde_json round trip: {}", op_dbg, S::op_dbg(&o2)));
                        }
                        o2
                    }
                    Ok(Err(e)) => return self.fail("serde.op", format!("op {} does not deserialise: {} (text {})", op_dbg, dq(e), dq(t.clone()))),
                    Err(p) => return self.fail("serde.op", format!("panic deserialising op {}: {}", op_dbg, p)),
                },
                Ok(Err(e)) => return self.fail("serde.op", format!("op {} does not serialise: {}", op_dbg, e)),
                Err(p) => return self.fail("serde.op", format!("panic serialising op {}: {}", op_dbg, p)),
            }
        } else {
            op.clone()
        };
        // apply at the origin
        let before_obs = origin_obs;
        let mut st = cur;
        if let Err(p) = guard(|| st.apply(op.clone())) {
            return self.fail("panic.apply", format!("node {}: apply({}) panicked: {}", node, op_dbg, p));
        }
        if let Some(sh) = self.nodes[node].shadow.as_mut() {
            let o2 = op.clone();
            if let Err(p) = guard(|| sh.apply(o2)) {
                return self.fail("panic.apply", format!("node {} twin: apply panicked: {}", node, p));
            }
        }
        let ix = self.ops.len();
        let is_rm = aop.is_remove();
        if !self.causally_closed(k_gen) || !self.causally_closed(k_read) {
            // the edit was issued at, or from a read of, a replica whose knowledge is not causally closed
            self.stats.noncausal_gen += 1;
        }
        self.ops.push(OpRec { tag, author: node, seq: self.nodes[node].issued + 1, op, wire_op, desc: desc.clone() });
        self.aops.push(aop);
        self.tag_ix.insert(tag, ix);
        {
            let x = &mut self.nodes[node];
            x.state = Some(st);
            x.k |= bit(ix);
            x.issued += 1;
            x.journal.push(JEntry::Op(ix));
            x.last_marker = Some(marker);
        }
        if self.cfg.repl != Repl::State {
            for (j, x) in self.nodes.iter_mut().enumerate() {
                if j != node {
                    x.pending.insert(ix);
                }
            }
        }
        self.stats.edits += 1;
        if use_held {
            self.stats.held_edits += 1;
        }
        if is_rm {
            self.stats.removes += 1;
        }
        self.check_node(node)?;
        if self.cfg.on("index") {
            self.check_index(node, ix, &before_obs)?;
        }
        Ok(true)
    }

    /// C13: the edit landed where the caller asked
    fn check_index(&mut self, node: usize, ix: usize, before: &Obs) -> Result<(), Failure> {
        let after = match &self.nodes[node].last_obs {
            Some(Obs::Seq { vals, .. }) => vals.clone(),
            _ => return Ok(()),
        };
        let before = match before {
            Obs::Seq { vals, .. } => vals.clone(),
            _ => return Ok(()),
        };
        let desc = self.ops[ix].desc.clone();
        let mut want = before.clone();
        match desc {
            Desc::LIns { ix, v } => want.insert(ix.min(before.len()), v),
            Desc::LApp { v } => want.push(v),
            Desc::LDel { ix } => {
                if ix < want.len() {
                    want.remove(ix);
                }
            }
            Desc::GIns { ix, v } => want.insert(ix.min(before.len()), v),
            Desc::GAfter { ix, v } => want.insert(ix + 1, v),
            Desc::GBefore { ix, v } => want.insert(ix, v),
            _ => return Ok(()),
        }
        if want != after {
            return self.fail("index", format!("node {}: {:?} on {:?} gave {:?}, a Vec would give {:?}", node, desc, before, after, want));
        }
        Ok(())
    }

    fn do_deliver(&mut self, node: usize, tag: u32) -> Res {
        let ix = match self.tag_ix.get(&tag) {
            Some(i) => *i,
            None => return Ok(false),
        };
        if !self.up(node) || self.cfg.repl == Repl::State {
            return Ok(false);
        }
        if !self.deliverable(node, ix) {
            return Ok(false);
        }
        let k = self.nodes[node].k;
        let dup = has(k, ix);
        let op = self.ops[ix].wire_op.clone();
        if self.cfg.on("validate.deliver") {
            let st = self.nodes[node].state.as_ref().unwrap();
            let v = guard(|| st.validate_op(&op));
            let exp_ok = crate::probes::expect_validate_ok(&self.family, &self.aops, k, ix, self.nodes[node].last_obs.as_ref());
            if let (Ok(vv), Some(false)) = (&v, exp_ok) {
                if self.cfg.on("validate.payload") {
                    if let Some(why) = crate::probes::check_gap_payload(&self.family, &self.aops, k, ix, vv) {
                        return self.fail("validate.payload", format!("node {} K={:x}: validate_op({}): {}", node, k, S::op_dbg(&op), why));
                    }
                }
            }
            match (v, exp_ok) {
                (Ok(Verdict::Ok), Some(true)) | (Ok(Verdict::Err { .. }), Some(false)) | (Ok(_), None) => {}
                (Ok(v), Some(e)) => {
                    let d = format!("node {} K={:x}: validate_op({}) = {}, expected {}", node, k, S::op_dbg(&op), v.show(), if e { "Ok (no update of its actor is skipped)" } else { "an ordering error (a gap)" });
                    if !self.soft_validate("validate.deliver", &v, e, d.clone()) {
                        return self.fail("validate.deliver", d);
                    }
                }
                (Err(p), _) => return self.fail("validate.deliver", format!("validate_op panicked: {}", p)),
            }
        }
        // an op overtaking something its author had observed (non-causal delivery)
        if !dup && (self.aops[ix].k_gen & !k) != 0 {
            self.stats.overtaking += 1;
        }
        {
            let st = self.nodes[node].state.as_mut().unwrap();
            let o2 = op.clone();
            if let Err(p) = guard(|| st.apply(o2)) {
                return self.fail("panic.apply", format!("node {}: apply({}) panicked: {}", node, S::op_dbg(&op), p));
            }
        }
        if let Some(sh) = self.nodes[node].shadow.as_mut() {
            let o2 = self.ops[ix].op.clone();
            if let Err(p) = guard(|| sh.apply(o2)) {
                return self.fail("panic.apply", format!("node {} twin: apply panicked: {}", node, p));
            }
        }
        {
            let x = &mut self.nodes[node];
            x.k |= bit(ix);
            x.pending.remove(&ix);
            // the journal is a write-ahead log of everything applied, redundant deliveries included
            x.journal.push(JEntry::Op(ix));
        }
        self.stats.delivers += 1;
        if dup {
            self.stats.dup_delivers += 1;
        }
        self.check_node(node)?;
        Ok(true)
    }

    fn do_deliver_state(&mut self, dst: usize, gid: u32) -> Res {
        if !self.up(dst) || !S::can_merge() || self.cfg.repl == Repl::Ops {
            return Ok(false);
        }
        let (blob, fk) = match self.flights.get(&gid) {
            Some(f) => (f.blob.clone(), f.k),
            None => return Ok(false),
        };
        let incoming = self.decode(&blob)?;
        let k = self.nodes[dst].k;
        if self.cfg.on("vmerge.correct") && !self.cfg.misuse {
            let st = self.nodes[dst].state.as_ref().unwrap();
            crate::probes::check_validate_merge_correct(self, st, &incoming, &format!("node {} and in-flight state {}", dst, gid))?;
        }
        {
            let st = self.nodes[dst].state.as_mut().unwrap();
            let inc = incoming.clone();
            if let Err(p) = guard(|| st.merge(inc)) {
                return self.fail("panic.merge", format!("node {}: merge panicked: {}", dst, p));
            }
        }
        if let Some(sh) = self.nodes[dst].shadow.as_mut() {
            // the twin merges the never-serialised form when there is one
            let inc = match &blob {
                Blob::Mem(s) | Blob::Both(_, s) => s.clone(),
                Blob::Json(_) => incoming.clone(),
            };
            if let Err(p) = guard(|| sh.merge(inc)) {
                return self.fail("panic.merge", format!("node {} twin: merge panicked: {}", dst, p));
            }
        }
        let stale = (fk & !k) == 0;
        {
            let x = &mut self.nodes[dst];
            x.k |= fk;
            x.journal.push(JEntry::State(gid));
        }
        self.merged = true;
        self.stats.merges += 1;
        if stale {
            self.stats.stale_merges += 1;
        }
        self.check_node(dst)?;
        Ok(true)
    }

    fn do_restart(&mut self, node: usize, stale: bool) -> Res {
        if node >= self.nodes.len() || self.nodes[node].state.is_some() {
            return Ok(false);
        }
        if stale && !self.cfg.misuse {
            return Ok(false);
        }
        let (mut st, mut k) = match self.nodes[node].snap.clone() {
            Some((b, k)) => (self.decode(&b)?, k),
            None => (S::new(), 0),
        };
        let journal = self.nodes[node].journal.clone();
        if stale {
            self.nodes[node].journal.clear();
        } else {
            for e in journal.iter() {
                match e {
                    JEntry::Op(ix) => {
                        let op = if self.ops[*ix].author == node { self.ops[*ix].op.clone() } else { self.ops[*ix].wire_op.clone() };
                        if let Err(p) = guard(|| st.apply(op)) {
                            return self.fail("panic.apply", format!("node {}: journal replay panicked: {}", node, p));
                        }
                        k |= bit(*ix);
                    }
                    JEntry::State(g) => {
                        if let Some(f) = self.flights.get(g) {
                            let inc = self.decode(&f.blob)?;
                            let fk = f.k;
                            if let Err(p) = guard(|| st.merge(inc)) {
                                return self.fail("panic.merge", format!("node {}: journal replay (merge) panicked: {}", node, p));
                            }
                            k |= fk;
                        }
                    }
                }
            }
        }
        let issued = if stale {
            // a restored backup forgets the ops issued since: the actor will re-spend their dots
            self.ops.iter().enumerate().filter(|(i, o)| o.author == node && has(k, *i)).count() as u32
        } else {
            self.nodes[node].issued
        };
        {
            let x = &mut self.nodes[node];
            x.state = Some(st);
            x.k = k;
            x.issued = issued;
            x.restarted = true;
            x.stalled = false;
        }
        self.stats.restarts += 1;
        if stale {
            self.stats.stale_restarts += 1;
        }
        // C19: the restored replica, brought up to date with what the crash lost, is the replica that crashed
        if let Some((ghost, gk, lost)) = self.nodes[node].ghost.take() {
            if !stale && self.cfg.on("restart.ghost") {
                let mut r = self.nodes[node].state.clone().unwrap();
                let mut rk = self.nodes[node].k;
                for e in lost.iter() {
                    match e {
                        JEntry::Op(ix) => {
                            let op = self.ops[*ix].wire_op.clone();
                            if let Err(p) = guard(|| r.apply(op)) {
                                return self.fail("panic.apply", format!("node {}: re-delivery after restart panicked: {}", node, p));
                            }
                            rk |= bit(*ix);
                        }
                        JEntry::State(g) => {
                            if let Some(f) = self.flights.get(g) {
                                let inc = self.decode(&f.blob)?;
                                let fk = f.k;
                                if let Err(p) = guard(|| r.merge(inc)) {
                                    return self.fail("panic.merge", format!("node {}: re-merge after restart panicked: {}", node, p));
                                }
                                rk |= fk;
                            }
                        }
                    }
                }
                if rk == gk {
                    let (o1, o2) = (guard(|| r.obs()), guard(|| ghost.obs()));
                    match (o1, o2) {
                        (Ok(a), Ok(b)) => {
                            if a != b {
                                return self.fail("restart.ghost", format!("node {} restored from disk reads differently from the replica that crashed\n  restored: {}\n  crashed : {}", node, a.show(), b.show()));
                            }
                        }
                        (Err(p), _) | (_, Err(p)) => return self.fail("restart.ghost", format!("node {}: reading the restored replica panicked: {}", node, p)),
                    }
                    match guard(|| r.same(&ghost)) {
                        Ok(true) => {}
                        Ok(false) => {
                            return self.fail("restart.ghost", format!("node {} restored from disk is not == to the replica that crashed\n  restored: {}\n  crashed : {}", node, dq(r.dbg()), dq(ghost.dbg())))
                        }
                        Err(p) => return self.fail("restart.ghost", format!("node {}: == between restored and crashed replica panicked: {}", node, p)),
                    }
                    if lost.is_empty() && self.cfg.json_wire {
                        // from now on the never-serialised twin receives the same events
                        self.nodes[node].shadow = Some(ghost);
                    }
                }
            }
        }
        self.check_node(node)?;
        Ok(true)
    }

    fn do_bounce(&mut self, node: usize) -> Res {
        if !self.up(node) {
            return Ok(false);
        }
        let st = self.nodes[node].state.clone().unwrap();
        if !self.serde_strict() {
            // restart from the serialised form; serde problems as such belong to C19
            let back = match guard(|| st.ser()) {
                Ok(Ok(t)) => match guard(|| S::de(&t)) {
                    Ok(Ok(b)) => b,
                    _ => return Ok(false),
                },
                _ => return Ok(false),
            };
            self.nodes[node].state = Some(back);
            self.stats.bounces += 1;
            self.check_node(node)?;
            return Ok(true);
        }
        let text = match guard(|| st.ser()) {
            Ok(Ok(t)) => t,
            Ok(Err(e)) => {
                let holds_pending = has_pending(&st.dbg());
                self.soft.push(Failure {
                    clause: "serde.ser".into(),
                    step: self.step,
                    detail: format!("node {} cannot be serialised: {} (pending removes held: {})", node, e, holds_pending),
                });
                return Ok(true);
            }
            Err(p) => return self.fail("serde.ser", format!("node {}: serialisation panicked: {}", node, p)),
        };
        let back = match guard(|| S::de(&text)) {
            Ok(Ok(s)) => s,
            Ok(Err(e)) => return self.fail("serde.de", format!("node {}: own serialised state does not deserialise: {}\n  text: {}", node, dq(e), dq(text.clone()))),
            Err(p) => return self.fail("serde.de", format!("node {}: deserialisation panicked: {}", node, p)),
        };
        match guard(|| back.same(&st)) {
            Ok(true) => {}
            Ok(false) => return self.fail("serde.eq", format!("node {}: deserialised state is not == to the original\n  original: {}\n  restored: {}", node, dq(st.dbg()), dq(back.dbg()))),
            Err(p) => return self.fail("serde.eq", format!("node {}: == after round trip panicked: {}", node, p)),
        }
        // the text must describe the same value when produced again from the restored replica
        if let Ok(Ok(t2)) = guard(|| back.ser()) {
            let a: Result<serde_json::Value, _> = serde_json::from_str(&text);
            let b: Result<serde_json::Value, _> = serde_json::from_str(&t2);
            if let (Ok(a), Ok(b)) = (a, b) {
                if canon_json(&a) != canon_json(&b) {
                    return self.fail("serde.eq", format!("node {}: re-serialising the restored state gives different JSON\n  first : {}\n  second: {}", node, dq(text.clone()), dq(t2.clone())));
                }
            }
        }
        if self.nodes[node].shadow.is_none() {
            self.nodes[node].shadow = Some(st);
        }
        self.nodes[node].state = Some(back);
        self.stats.bounces += 1;
        self.check_node(node)?;
        Ok(true)
    }
}

/// does the Debug rendering of a state show a non-empty pending-remove table?
pub fn has_pending(dbg: &str) -> bool {
    let mut rest = dbg;
    while let Some(i) = rest.find("deferred: {") {
        let after = &rest[i + "deferred: {".len()..];
        if !after.starts_with('}') {
            return true;
        }
        rest = after;
    }
    false
}

fn leaf_spends_context(d: &Desc) -> bool {
    match d {
        Desc::D(dd) => {
            let mut x = dd;
            loop {
                match x {
                    DDesc::MapUp { inner, .. } => x = inner,
                    DDesc::RegWrite { .. } | DDesc::SetAdd { .. } | DDesc::SetAddAll { .. } => return true,
                    _ => return false,
                }
            }
        }
        Desc::MWrite { .. } => false,
        _ => true,
    }
}

/// top-level contexts only (C07): the add clock, member witnesses / entry witnesses
pub fn ctx_only(o: &Obs) -> Obs {
    match o {
        Obs::Dotted { add, body, notes } => {
            let b = match body {
                DObs::Set(m) => DObs::Set(m.clone()),
                DObs::Reg(_) => DObs::Reg(vec![]),
                DObs::Map(m) => DObs::Map(m.iter().map(|(k, (c, _))| (*k, (c.clone(), DObs::Reg(vec![])))).collect()),
            };
            Obs::Dotted { add: add.clone(), body: b, notes: notes.clone() }
        }
        x => x.clone(),
    }
}

pub fn strip_all_ctx(o: &Obs) -> Obs {
    fn strip(d: &DObs) -> DObs {
        match d {
            DObs::Set(m) => DObs::Set(m.keys().map(|k| (*k, Clk::new())).collect()),
            DObs::Reg(v) => DObs::Reg(v.clone()),
            DObs::Map(m) => DObs::Map(m.iter().map(|(k, (_, v))| (*k, (Clk::new(), strip(v)))).collect()),
        }
    }
    match o {
        Obs::Dotted { body, notes, .. } => Obs::Dotted { add: Clk::new(), body: strip(body), notes: notes.clone() },
        x => x.clone(),
    }
}

/// order-insensitive rendering of JSON (maps sorted; arrays of pairs coming from hash maps sorted too)
pub fn canon_json(v: &serde_json::Value) -> String {
    match v {
        serde_json::Value::Object(m) => {
            let mut items: Vec<String> = m.iter().map(|(k, v)| format!("{:?}:{}", k, canon_json(v))).collect();
            items.sort();
            format!("{{{}}}", items.join(","))
        }
        serde_json::Value::Array(a) => {
            let mut items: Vec<String> = a.iter().map(canon_json).collect();
            // arrays that stand for sets (hash-ordered) are compared as multisets; sequences in this
            // crate that are order-sensitive (list identifiers, MVReg values) are compared through ==
            items.sort();
            format!("[{}]", items.join(","))
        }
        x => x.to_string(),
    }
}

pub fn is_remove_like(a: &AOp) -> bool {
    matches!(a.info, AInfo::Dotted { leaf: Leaf::SetRm { .. }, .. } | AInfo::Dotted { leaf: Leaf::KeyRm { .. }, .. } | AInfo::ListDel { .. })
}

/// The pending-remove table of a top-level Orswot / Map, read off the derived Debug rendering (there is
/// no public accessor and serde_json cannot serialise a non-empty table, F7). None = unparsable.
pub fn pending_table(dbg: &str) -> Option<BTreeMap<Clk, BTreeSet<u8>>> {
    // locate `deferred: {` at brace depth 1 of the outermost struct
    let b = dbg.as_bytes();
    let mut depth = 0i32;
    let mut start = None;
    let key = b"deferred: {";
    let mut i = 0;
    while i < b.len() {
        if depth == 1 && b[i..].starts_with(key) {
            start = Some(i + key.len());
        }
        match b[i] {
            b'{' => depth += 1,
            b'}' => depth -= 1,
            _ => {}
        }
        i += 1;
    }
    let start = start?;
    // content up to the matching brace
    let mut d = 1i32;
    let mut end = start;
    while end < b.len() {
        match b[end] {
            b'{' => d += 1,
            b'}' => {
                d -= 1;
                if d == 0 {
                    break;
                }
            }
            _ => {}
        }
        end += 1;
    }
    let mut rest = &dbg[start..end];
    let mut out: BTreeMap<Clk, BTreeSet<u8>> = BTreeMap::new();
    loop {
        rest = rest.trim_start_matches(|c: char| c == ',' || c == ' ');
        if rest.is_empty() {
            break;
        }
        let p = "VClock { dots: {";
        if !rest.starts_with(p) {
            return None;
        }
        rest = &rest[p.len()..];
        let close = rest.find('}')?;
        let mut clk = Clk::new();
        for pair in rest[..close].split(',') {
            let pair = pair.trim();
            if pair.is_empty() {
                continue;
            }
            let mut it = pair.split(':');
            let a: u8 = it.next()?.trim().parse().ok()?;
            let n: u64 = it.next()?.trim().parse().ok()?;
            clk.insert(a, n);
        }
        rest = &rest[close + 1..];
        let p2 = " }: {";
        if !rest.starts_with(p2) {
            return None;
        }
        rest = &rest[p2.len()..];
        let close = rest.find('}')?;
        let mut ms = BTreeSet::new();
        for m in rest[..close].split(',') {
            let m = m.trim();
            if m.is_empty() {
                continue;
            }
            ms.insert(m.parse::<u8>().ok()?);
        }
        rest = &rest[close + 1..];
        out.entry(clk).or_default().extend(ms);
    }
    Some(out)
}
