//! Reference models (DESIGN §3): pure functions of (op table, knowledge set). They never look at the
//! implementation's clocks; contexts are recomputed from what the author had observed.

use crate::types::*;
use std::collections::{BTreeMap, BTreeSet};

#[derive(Clone, Debug, PartialEq)]
pub enum Leaf {
    Add(Vec<u8>),
    SetRm { ms: Vec<u8>, ctx: Clk },
    Write(u64),
    KeyRm { k: u8, ctx: Clk },
}

#[derive(Clone, Debug, PartialEq)]
pub enum AInfo {
    Dotted { path: Vec<u8>, leaf: Leaf },
    Counter { neg: bool, total: u64 },
    VcInc { n: u64 },
    Put(u64),
    Lww { v: u64, marker: (u64, u8, u64) },
    ListIns { v: u64 },
    ListDel { v: u64 },
    GIns { v: u64 },
    Merkle { hash: String, children: Vec<String>, v: u64 },
}

/// abstract op: who issued it, what the author knew, what it does
#[derive(Clone, Debug)]
pub struct AOp {
    pub author: u8,
    /// counter of the dot this op spends (None for context-only ops: top-level removes)
    pub dot: Option<u64>,
    pub k_gen: KSet,
    pub k_read: KSet,
    /// transitive closure of k_read over the authors' reads (what the op's context covers)
    pub seen: KSet,
    pub info: AInfo,
}

impl AOp {
    pub fn path(&self) -> &[u8] {
        match &self.info {
            AInfo::Dotted { path, .. } => path,
            _ => &[],
        }
    }
    pub fn leaf(&self) -> Option<&Leaf> {
        match &self.info {
            AInfo::Dotted { leaf, .. } => Some(leaf),
            _ => None,
        }
    }
    pub fn is_remove(&self) -> bool {
        matches!(self.leaf(), Some(Leaf::SetRm { .. }) | Some(Leaf::KeyRm { .. })) || matches!(self.info, AInfo::ListDel { .. })
    }
}

pub fn closure(ops: &[AOp], k: KSet) -> KSet {
    let mut r = k;
    for (i, o) in ops.iter().enumerate() {
        if has(k, i) {
            r |= o.seen;
        }
    }
    r
}

/// per-actor maximum of the dots spent by the ops of `k`
pub fn clock_of(ops: &[AOp], k: KSet) -> Clk {
    let mut c = Clk::new();
    for (i, o) in ops.iter().enumerate() {
        if has(k, i) {
            if let Some(n) = o.dot {
                clk_bump(&mut c, o.author, n);
            }
        }
    }
    c
}

fn is_prefix(p: &[u8], of: &[u8]) -> bool {
    p.len() <= of.len() && of[..p.len()] == *p
}

/// is dot (a, n), living at `path`, covered by a key remove known in `k` that targets a prefix of `path`?
fn covered_by_keyrm(ops: &[AOp], k: KSet, path: &[u8], a: u8, n: u64) -> bool {
    ops.iter().enumerate().any(|(i, o)| {
        has(k, i)
            && match &o.info {
                AInfo::Dotted { path: rp, leaf: Leaf::KeyRm { k: rk, ctx } } => {
                    let mut t = rp.clone();
                    t.push(*rk);
                    is_prefix(&t, path) && clk_get(ctx, a) >= n
                }
                _ => false,
            }
    })
}

/// witnesses of the map entry at `target` (= path of the enclosing maps + key)
pub fn entry_clock(ops: &[AOp], k: KSet, target: &[u8]) -> Clk {
    let mut c = Clk::new();
    for (i, o) in ops.iter().enumerate() {
        if !has(k, i) {
            continue;
        }
        if let (Some(n), AInfo::Dotted { path, .. }) = (o.dot, &o.info) {
            if is_prefix(target, path) && !covered_by_keyrm(ops, k, target, o.author, n) {
                clk_bump(&mut c, o.author, n);
            }
        }
    }
    c
}

/// witnesses of member `m` of the set at `path`
pub fn member_witnesses(ops: &[AOp], k: KSet, path: &[u8], m: u8) -> Clk {
    let mut c = Clk::new();
    for (i, o) in ops.iter().enumerate() {
        if !has(k, i) {
            continue;
        }
        if let (Some(n), AInfo::Dotted { path: p, leaf: Leaf::Add(ms) }) = (o.dot, &o.info) {
            if p.as_slice() == path && ms.contains(&m) && !covered_by_keyrm(ops, k, path, o.author, n) {
                let by_setrm = ops.iter().enumerate().any(|(j, r)| {
                    has(k, j)
                        && match &r.info {
                            AInfo::Dotted { path: rp, leaf: Leaf::SetRm { ms: rms, ctx } } => {
                                rp.as_slice() == path && rms.contains(&m) && clk_get(ctx, o.author) >= n
                            }
                            _ => false,
                        }
                });
                if !by_setrm {
                    clk_bump(&mut c, o.author, n);
                }
            }
        }
    }
    c
}

fn reg_values(ops: &[AOp], k: KSet, path: &[u8]) -> Vec<u64> {
    let mut vals: Vec<u64> = reg_visible(ops, k, path).into_iter().map(|(_, v)| v).collect();
    vals.sort();
    vals
}

/// the causally maximal, surviving writes of the register at `path`: (op index, value)
fn reg_visible(ops: &[AOp], k: KSet, path: &[u8]) -> Vec<(usize, u64)> {
    let mut vals = vec![];
    for (i, o) in ops.iter().enumerate() {
        if !has(k, i) {
            continue;
        }
        if let (Some(n), AInfo::Dotted { path: p, leaf: Leaf::Write(v) }) = (o.dot, &o.info) {
            if p.as_slice() != path || covered_by_keyrm(ops, k, path, o.author, n) {
                continue;
            }
            let superseded = ops.iter().enumerate().any(|(j, w)| {
                j != i
                    && has(k, j)
                    && matches!(&w.info, AInfo::Dotted { path: wp, leaf: Leaf::Write(_) } if wp.as_slice() == path)
                    && has(w.seen, i)
            });
            if !superseded {
                vals.push((i, *v));
            }
        }
    }
    vals
}

pub fn eval_dotted(shape: &Shape, ops: &[AOp], k: KSet, path: &[u8], universe: u8) -> DObs {
    match shape {
        Shape::Set => {
            let mut m = BTreeMap::new();
            for x in 0..universe {
                let w = member_witnesses(ops, k, path, x);
                if !w.is_empty() {
                    m.insert(x, w);
                }
            }
            DObs::Set(m)
        }
        Shape::Reg => DObs::Reg(reg_values(ops, k, path)),
        Shape::Map(inner) => {
            let mut m = BTreeMap::new();
            for x in 0..universe {
                let mut t = path.to_vec();
                t.push(x);
                let ec = entry_clock(ops, k, &t);
                if !ec.is_empty() {
                    m.insert(x, (ec, eval_dotted(inner, ops, k, &t, universe)));
                }
            }
            DObs::Map(m)
        }
    }
}

/// What the model needs to know about the issuing replica when an edit is turned into an abstract op.
pub struct ResolveCtx<'a> {
    pub author: u8,
    pub k_gen: KSet,
    pub k_read: KSet,
    /// last observation of the issuing replica (List: to name the deleted element)
    pub origin_obs: &'a Obs,
    /// canonical rendering of the real op (MerkleReg: hash, value, children)
    pub op_dbg: &'a str,
    pub marker: (u64, u8, u64),
}

pub fn resolve(family: &Family, ops: &[AOp], d: &Desc, rc: &ResolveCtx) -> Result<AOp, String> {
    let mut seen = rc.k_read;
    for (i, o) in ops.iter().enumerate() {
        if has(rc.k_read, i) {
            seen |= o.seen;
        }
    }
    let own_dotted = |pred: &dyn Fn(&AOp) -> bool| -> u64 {
        ops.iter().enumerate().filter(|(i, o)| has(rc.k_gen, *i) && o.author == rc.author && o.dot.is_some() && pred(o)).count() as u64
    };
    let mk = |dot: Option<u64>, info: AInfo| AOp { author: rc.author, dot, k_gen: rc.k_gen, k_read: rc.k_read, seen, info };
    match (family, d) {
        (Family::Dotted(_), Desc::D(dd)) => {
            let mut path = vec![];
            let mut x = dd;
            let leaf = loop {
                match x {
                    DDesc::MapUp { k, inner } => {
                        path.push(*k);
                        x = inner;
                    }
                    DDesc::SetAdd { m } => break Leaf::Add(vec![*m]),
                    DDesc::SetAddAll { ms } => break Leaf::Add(ms.clone()),
                    DDesc::RegWrite { v } => break Leaf::Write(*v),
                    DDesc::SetRm { m } => break Leaf::SetRm { ms: vec![*m], ctx: member_witnesses(ops, rc.k_read, &path, *m) },
                    DDesc::SetRmAll { ms } => {
                        if !path.is_empty() {
                            return Err("SetRmAll is a top-level edit".into());
                        }
                        break Leaf::SetRm { ms: ms.clone(), ctx: clock_of(ops, rc.k_read) };
                    }
                    DDesc::MapRm { k, whole } => {
                        let ctx = if *whole {
                            if !path.is_empty() {
                                return Err("whole-map remove context is a top-level edit".into());
                            }
                            clock_of(ops, rc.k_read)
                        } else {
                            let mut t = path.clone();
                            t.push(*k);
                            entry_clock(ops, rc.k_read, &t)
                        };
                        break Leaf::KeyRm { k: *k, ctx };
                    }
                }
            };
            let dotted = !path.is_empty() || matches!(leaf, Leaf::Add(_) | Leaf::Write(_));
            let dot = if dotted { Some(own_dotted(&|_| true) + 1) } else { None };
            Ok(mk(dot, AInfo::Dotted { path, leaf }))
        }
        (Family::GCounter, Desc::Inc) | (Family::GCounter, Desc::IncMany(_)) | (Family::PNCounter, _) => {
            let (neg, step) = match d {
                Desc::Inc => (false, 1),
                Desc::Dec => (true, 1),
                Desc::IncMany(n) => (false, *n),
                Desc::DecMany(n) => (true, *n),
                o => return Err(format!("{:?} is not a counter edit", o)),
            };
            let prev = ops
                .iter()
                .enumerate()
                .filter(|(i, o)| has(rc.k_gen, *i) && o.author == rc.author)
                .filter_map(|(_, o)| match o.info {
                    AInfo::Counter { neg: n2, total } if n2 == neg => Some(total),
                    _ => None,
                })
                .max()
                .unwrap_or(0);
            // the library keeps an actor's running total in a u64: histories that would overflow it are outside
            // every property's premise and are not generated
            let total = match prev.checked_add(step) {
                Some(t) => t,
                None => return Err("running total would overflow u64".into()),
            };
            Ok(mk(Some(total), AInfo::Counter { neg, total }))
        }
        (Family::VClock, Desc::Inc) => {
            let n = own_dotted(&|_| true) + 1;
            Ok(mk(Some(n), AInfo::VcInc { n }))
        }
        (Family::GSet, Desc::Put(v)) | (Family::MaxReg, Desc::Put(v)) | (Family::MinReg, Desc::Put(v)) => Ok(mk(None, AInfo::Put(*v))),
        (Family::Lww, Desc::Lww { v, .. }) => Ok(mk(None, AInfo::Lww { v: *v, marker: rc.marker })),
        (Family::List, Desc::LIns { v, .. }) | (Family::List, Desc::LApp { v }) => {
            Ok(mk(Some(own_dotted(&|_| true) + 1), AInfo::ListIns { v: *v }))
        }
        (Family::List, Desc::LDel { ix }) => match rc.origin_obs {
            Obs::Seq { vals, .. } if *ix < vals.len() => Ok(mk(Some(own_dotted(&|_| true) + 1), AInfo::ListDel { v: vals[*ix] })),
            _ => Err("delete beyond the end".into()),
        },
        (Family::GList, Desc::GIns { v, .. }) | (Family::GList, Desc::GAfter { v, .. }) | (Family::GList, Desc::GBefore { v, .. }) => {
            Ok(mk(None, AInfo::GIns { v: *v }))
        }
        (Family::Merkle, Desc::MWrite { v, .. }) => {
            let parts: Vec<&str> = rc.op_dbg.split('|').collect();
            if parts.len() != 3 {
                return Err("unparsable merkle op".into());
            }
            let children: Vec<String> = parts[2].split(',').filter(|s| !s.is_empty()).map(|s| s.to_string()).collect();
            Ok(mk(None, AInfo::Merkle { hash: parts[0].to_string(), children, v: *v }))
        }
        (f, d) => Err(format!("descriptor {:?} does not fit family {:?}", d, f)),
    }
}

/// contexts the model expects inside the real op (C07)
pub fn expected_op_info(family: &Family, ops: &[AOp], o: &AOp) -> Option<OpInfo> {
    match (family, &o.info) {
        (Family::Dotted(shape), AInfo::Dotted { path, leaf }) => {
            let mut info = OpInfo::default();
            if let Some(n) = o.dot {
                info.dot = Some((o.author, n));
                // one dot per nesting level below the first
                let levels = path.len() + if matches!(leaf, Leaf::Add(_)) { 1 } else { 0 };
                for _ in 1..levels {
                    info.inner_dots.push((o.author, n));
                }
            }
            if path.is_empty() && matches!(leaf, Leaf::Write(_)) {
                // a top-level register op carries its dot only inside the write context
                info.dot = None;
            }
            match leaf {
                Leaf::SetRm { ctx, .. } | Leaf::KeyRm { ctx, .. } => info.rm_ctx = Some(ctx.clone()),
                Leaf::Write(_) => {
                    let base = if matches!(shape, Shape::Reg) { closure(ops, o.k_read) } else { o.k_read };
                    let mut c = clock_of(ops, base);
                    if let Some(n) = o.dot {
                        clk_bump(&mut c, o.author, n);
                    }
                    info.write_ctx = Some(c);
                }
                Leaf::Add(_) => {}
            }
            Some(info)
        }
        (Family::GCounter, AInfo::Counter { total, .. }) | (Family::PNCounter, AInfo::Counter { total, .. }) => {
            Some(OpInfo { dot: Some((o.author, *total)), ..Default::default() })
        }
        (Family::VClock, AInfo::VcInc { n }) => Some(OpInfo { dot: Some((o.author, *n)), ..Default::default() }),
        (Family::List, AInfo::ListIns { .. }) | (Family::List, AInfo::ListDel { .. }) => {
            Some(OpInfo { dot: Some((o.author, o.dot.unwrap_or(0))), ..Default::default() })
        }
        _ => None,
    }
}

/// expected canonical observation of a replica whose knowledge set is `k` (None: family has no
/// predictive model; its oracle is a set of constraints, see `SeqOracle`)
pub fn expect(family: &Family, ops: &[AOp], k: KSet, universe: u8) -> Option<Obs> {
    match family {
        Family::Dotted(shape) => {
            let add = if matches!(shape, Shape::Reg) { clock_of(ops, closure(ops, k)) } else { clock_of(ops, k) };
            Some(Obs::Dotted { add, body: eval_dotted(shape, ops, k, &[], universe), notes: vec![] })
        }
        Family::GCounter | Family::PNCounter => {
            let mut p: BTreeMap<u8, u64> = BTreeMap::new();
            let mut n: BTreeMap<u8, u64> = BTreeMap::new();
            for (i, o) in ops.iter().enumerate() {
                if has(k, i) {
                    if let AInfo::Counter { neg, total } = o.info {
                        clk_bump(if neg { &mut n } else { &mut p }, o.author, total);
                    }
                }
            }
            let v: i128 = p.values().map(|x| *x as i128).sum::<i128>() - n.values().map(|x| *x as i128).sum::<i128>();
            Some(Obs::Num { val: v.to_string(), notes: vec![] })
        }
        Family::VClock => {
            let mut c = Clk::new();
            for (i, o) in ops.iter().enumerate() {
                if has(k, i) {
                    if let AInfo::VcInc { n } = o.info {
                        clk_bump(&mut c, o.author, n);
                    }
                }
            }
            Some(Obs::Clock(c))
        }
        Family::GSet => Some(Obs::SetU(puts(ops, k).into_iter().collect())),
        Family::MaxReg => Some(Obs::Val(puts(ops, k).into_iter().chain(std::iter::once(50)).max().unwrap())),
        Family::MinReg => Some(Obs::Val(puts(ops, k).into_iter().chain(std::iter::once(50)).min().unwrap())),
        Family::Lww => {
            let mut best = (0u64, (0u64, 0u8, 0u64));
            for (i, o) in ops.iter().enumerate() {
                if has(k, i) {
                    if let AInfo::Lww { v, marker } = o.info {
                        if marker > best.1 {
                            best = (v, marker);
                        }
                    }
                }
            }
            Some(Obs::Lww { val: best.0, marker: best.1 })
        }
        Family::Merkle => {
            let mut recv: BTreeMap<String, (u64, BTreeSet<String>)> = BTreeMap::new();
            for (i, o) in ops.iter().enumerate() {
                if has(k, i) {
                    if let AInfo::Merkle { hash, children, v } = &o.info {
                        recv.insert(hash.clone(), (*v, children.iter().cloned().collect()));
                    }
                }
            }
            let mut visible: BTreeMap<String, (u64, BTreeSet<String>)> = BTreeMap::new();
            loop {
                let mut grew = false;
                for (h, (v, ch)) in recv.iter() {
                    if !visible.contains_key(h) && ch.iter().all(|c| visible.contains_key(c)) {
                        visible.insert(h.clone(), (*v, ch.clone()));
                        grew = true;
                    }
                }
                if !grew {
                    break;
                }
            }
            let heads: BTreeSet<String> =
                visible.keys().filter(|h| !visible.values().any(|(_, ch)| ch.contains(*h))).cloned().collect();
            let head_vals: BTreeSet<u64> = heads.iter().map(|h| visible[h].0).collect();
            Some(Obs::Merkle {
                heads,
                head_vals,
                nodes: visible.len(),
                orphans: recv.len() - visible.len(),
                notes: vec![format!("dag={:?}", visible)],
            })
        }
        Family::List | Family::GList => None,
    }
}

fn puts(ops: &[AOp], k: KSet) -> Vec<u64> {
    ops.iter().enumerate().filter(|(i, _)| has(k, *i)).filter_map(|(_, o)| if let AInfo::Put(v) = o.info { Some(v) } else { None }).collect()
}

/// expected element set of a sequence replica
pub fn seq_alive(ops: &[AOp], k: KSet) -> BTreeSet<u64> {
    let mut s = BTreeSet::new();
    for (i, o) in ops.iter().enumerate() {
        if has(k, i) {
            match o.info {
                AInfo::ListIns { v } | AInfo::GIns { v } => {
                    s.insert(v);
                }
                _ => {}
            }
        }
    }
    for (i, o) in ops.iter().enumerate() {
        if has(k, i) {
            if let AInfo::ListDel { v } = o.info {
                s.remove(&v);
            }
        }
    }
    s
}

/// run-global precedence relation for C12: once x was seen before y anywhere, never y before x
#[derive(Default, Clone)]
pub struct SeqOracle {
    before: std::collections::HashSet<(u64, u64)>,
    last: BTreeMap<usize, Vec<u64>>,
}

impl SeqOracle {
    fn check_pair(&self, a: u64, b: u64, vals: &[u64]) -> Result<(), String> {
        if self.before.contains(&(b, a)) {
            return Err(format!("{} before {} in {:?}, but {} was before {} earlier in the run", a, b, vals, b, a));
        }
        Ok(())
    }
    /// `who` identifies the observer (a replica); its previous observation makes the common cases — nothing
    /// changed, one element inserted, one element deleted — cost O(n) instead of O(n^2)
    pub fn observe(&mut self, who: usize, vals: &[u64]) -> Result<(), String> {
        let mut seen = std::collections::HashSet::new();
        for v in vals {
            if !seen.insert(*v) {
                return Err(format!("element {} appears twice in {:?}", v, vals));
            }
        }
        let prev = self.last.get(&who).cloned().unwrap_or_default();
        if prev.as_slice() == vals {
            return Ok(());
        }
        // one element inserted?
        if vals.len() == prev.len() + 1 {
            if let Some(p) = (0..vals.len()).find(|i| *i >= prev.len() || prev[*i] != vals[*i]) {
                if prev[p..] == vals[p + 1..] {
                    let x = vals[p];
                    for a in &vals[..p] {
                        self.check_pair(*a, x, vals)?;
                    }
                    for b in &vals[p + 1..] {
                        self.check_pair(x, *b, vals)?;
                    }
                    for a in &vals[..p] {
                        self.before.insert((*a, x));
                    }
                    for b in &vals[p + 1..] {
                        self.before.insert((x, *b));
                    }
                    self.last.insert(who, vals.to_vec());
                    return Ok(());
                }
            }
        }
        // one element deleted? every remaining pair was already recorded
        if vals.len() + 1 == prev.len() {
            if let Some(p) = (0..prev.len()).find(|i| *i >= vals.len() || prev[*i] != vals[*i]) {
                if prev[p + 1..] == vals[p..] {
                    self.last.insert(who, vals.to_vec());
                    return Ok(());
                }
            }
        }
        for i in 0..vals.len() {
            for j in i + 1..vals.len() {
                self.check_pair(vals[i], vals[j], vals)?;
            }
        }
        for i in 0..vals.len() {
            for j in i + 1..vals.len() {
                self.before.insert((vals[i], vals[j]));
            }
        }
        self.last.insert(who, vals.to_vec());
        Ok(())
    }
    pub fn forget(&mut self, who: usize) {
        self.last.remove(&who);
    }
}

// -------------------------------------------------------------------------------------------------
// pending removes and reset_remove (C08, C18, C20)
// -------------------------------------------------------------------------------------------------

/// the pending-remove table a top-level Orswot / Map must hold: removes known in `k` whose context is
/// not yet covered by the replica clock, keyed by context
pub fn pending(ops: &[AOp], k: KSet) -> BTreeMap<Clk, BTreeSet<u8>> {
    let clock = clock_of(ops, k);
    let mut t: BTreeMap<Clk, BTreeSet<u8>> = BTreeMap::new();
    for (i, o) in ops.iter().enumerate() {
        if !has(k, i) || o.dot.is_some() {
            continue;
        }
        if let AInfo::Dotted { path, leaf } = &o.info {
            if !path.is_empty() {
                continue;
            }
            let (ctx, ms): (&Clk, Vec<u8>) = match leaf {
                Leaf::SetRm { ms, ctx } => (ctx, ms.clone()),
                Leaf::KeyRm { k, ctx } => (ctx, vec![*k]),
                _ => continue,
            };
            if !clk_leq(ctx, &clock) {
                t.entry(ctx.clone()).or_default().extend(ms);
            }
        }
    }
    t
}

/// VClock::reset_remove on canonical clocks: an entry survives iff it is strictly newer than `c`
pub fn clk_reset(x: &Clk, c: &Clk) -> Clk {
    x.iter().filter(|(a, n)| **n > clk_get(c, **a)).map(|(a, n)| (*a, *n)).collect()
}

fn reset_body(shape: &Shape, ops: &[AOp], k: KSet, path: &[u8], c: &Clk, universe: u8) -> DObs {
    match shape {
        Shape::Set => {
            let mut m = BTreeMap::new();
            for x in 0..universe {
                let w = clk_reset(&member_witnesses(ops, k, path, x), c);
                if !w.is_empty() {
                    m.insert(x, w);
                }
            }
            DObs::Set(m)
        }
        Shape::Reg => {
            // a value goes when every dot of the context it was written with is covered
            let mut vals = vec![];
            for (i, v) in reg_visible(ops, k, path) {
                let o = &ops[i];
                let base = if path.is_empty() { closure(ops, o.k_read) } else { o.k_read };
                let mut ctx = clock_of(ops, base);
                if let Some(n) = o.dot {
                    clk_bump(&mut ctx, o.author, n);
                }
                if !clk_reset(&ctx, c).is_empty() {
                    vals.push(v);
                }
            }
            vals.sort();
            DObs::Reg(vals)
        }
        Shape::Map(inner) => {
            let mut m = BTreeMap::new();
            for x in 0..universe {
                let mut t = path.to_vec();
                t.push(x);
                let ec = clk_reset(&entry_clock(ops, k, &t), c);
                if !ec.is_empty() {
                    m.insert(x, (ec, reset_body(inner, ops, k, &t, c, universe)));
                }
            }
            DObs::Map(m)
        }
    }
}

/// expected observation after reset_remove(c) of a replica with knowledge `k`
pub fn expect_after_reset(family: &Family, ops: &[AOp], k: KSet, c: &Clk, universe: u8) -> Option<Obs> {
    match family {
        Family::Dotted(shape) => {
            let add = if matches!(shape, Shape::Reg) {
                // join of the reduced contexts of the surviving values
                let mut add = Clk::new();
                for (i, _) in reg_visible(ops, k, &[]) {
                    let o = &ops[i];
                    let mut ctx = clock_of(ops, closure(ops, o.k_read));
                    if let Some(n) = o.dot {
                        clk_bump(&mut ctx, o.author, n);
                    }
                    add = clk_join(&add, &clk_reset(&ctx, c));
                }
                add
            } else {
                clk_reset(&clock_of(ops, k), c)
            };
            Some(Obs::Dotted { add, body: reset_body(shape, ops, k, &[], c, universe), notes: vec![] })
        }
        Family::VClock => match expect(family, ops, k, universe) {
            Some(Obs::Clock(x)) => Some(Obs::Clock(clk_reset(&x, c))),
            _ => None,
        },
        Family::GCounter | Family::PNCounter => {
            let mut p = Clk::new();
            let mut n = Clk::new();
            for (i, o) in ops.iter().enumerate() {
                if has(k, i) {
                    if let AInfo::Counter { neg, total } = o.info {
                        clk_bump(if neg { &mut n } else { &mut p }, o.author, total);
                    }
                }
            }
            let v: i128 = clk_reset(&p, c).values().map(|x| *x as i128).sum::<i128>() - clk_reset(&n, c).values().map(|x| *x as i128).sum::<i128>();
            Some(Obs::Num { val: v.to_string(), notes: vec![] })
        }
        _ => None,
    }
}

/// the pending-remove table after reset_remove(c)
pub fn pending_after_reset(t: &BTreeMap<Clk, BTreeSet<u8>>, c: &Clk) -> BTreeMap<Clk, BTreeSet<u8>> {
    let mut r: BTreeMap<Clk, BTreeSet<u8>> = BTreeMap::new();
    for (ctx, ms) in t {
        let x = clk_reset(ctx, c);
        if !x.is_empty() {
            r.entry(x).or_default().extend(ms.iter().copied());
        }
    }
    r
}
