//! The seam between the simulator and the library under test: everything the engine does to a
//! replica goes through this trait, implemented once in `adapters.rs` and instantiated for the
//! working tree (`crdts`) and for the pinned baseline copy (`crdts_base`).

use crate::types::*;

pub trait Sut: Clone + Sized {
    type Op: Clone;
    fn family() -> Family;
    fn new() -> Self;
    /// Turn an edit descriptor into a real op through the public API. `self` is the replica the
    /// edit is issued at, `read` the state the client read (the same replica now, or a held read).
    fn gen(&self, read: &Self, actor: u8, d: &Desc, via: u8, env: &GenEnv) -> Result<Self::Op, String>;
    fn apply(&mut self, op: Self::Op);
    fn can_merge() -> bool;
    fn merge(&mut self, other: Self);
    fn validate_op(&self, op: &Self::Op) -> Verdict;
    fn validate_merge(&self, other: &Self) -> Verdict;
    fn obs(&self) -> Obs;
    fn op_info(op: &Self::Op) -> OpInfo;
    fn same(&self, other: &Self) -> bool;
    fn dbg(&self) -> String;
    fn ser(&self) -> Result<String, String>;
    fn de(s: &str) -> Result<Self, String>;
    fn ser_op(op: &Self::Op) -> Result<String, String>;
    fn de_op(s: &str) -> Result<Self::Op, String>;
    fn op_same(a: &Self::Op, b: &Self::Op) -> bool;
    fn op_dbg(op: &Self::Op) -> String;
    fn can_reset() -> bool;
    fn reset_remove(&mut self, c: &Clk);
}
