//! The seeded scheduler (DESIGN §2.2, §2.6): decides which kernel event comes next. Every choice is
//! drawn from one PRNG; the chosen events are executed immediately and recorded, so the recorded list
//! replays without the generator.

use crate::engine::{Res, World};
use crate::rng::Rng;
use crate::sut::Sut;
use crate::types::*;

pub struct Generated<S: Sut> {
    pub events: Vec<Ev>,
    pub world: World<S>,
    pub failure: Option<Failure>,
}

struct G {
    rng: Rng,
    next_tag: u32,
    next_gid: u32,
    edits: usize,
    last_ix: usize,
    cursors: Vec<usize>,
}

fn gen_ddesc(shape: &Shape, cfg: &Config, rng: &mut Rng, top: bool, tag: u32) -> DDesc {
    let m = rng.below(cfg.nmembers.max(1) as usize) as u8;
    let k = rng.below(cfg.nkeys.max(1) as usize) as u8;
    match shape {
        Shape::Set => match rng.below(100) {
            0..=39 => DDesc::SetAdd { m },
            40..=49 if !cfg.misuse => {
                let mut ms: Vec<u8> = (0..cfg.nmembers.max(2)).filter(|_| rng.chance(2, 3)).collect();
                if cfg.odd_inputs && rng.chance(1, 3) {
                    // empty, or with a repeated member
                    if rng.chance(1, 2) {
                        ms.clear();
                    } else {
                        ms.push(m);
                        ms.push(m);
                    }
                } else if ms.len() < 2 {
                    ms = vec![0, 1];
                }
                DDesc::SetAddAll { ms }
            }
            40..=84 => DDesc::SetRm { m },
            _ => {
                if top {
                    let mut ms: Vec<u8> = (0..cfg.nmembers.max(1)).filter(|_| rng.chance(2, 3)).collect();
                    if cfg.odd_inputs && rng.chance(1, 3) {
                        if rng.chance(1, 2) {
                            ms.clear();
                        } else {
                            ms.push(m);
                            ms.push(m);
                        }
                    } else if ms.is_empty() {
                        ms = vec![m];
                    }
                    DDesc::SetRmAll { ms }
                } else {
                    DDesc::SetRm { m }
                }
            }
        },
        // equal values written concurrently must all be kept: sometimes draw from a tiny domain
        Shape::Reg => DDesc::RegWrite { v: if cfg.dup_values && rng.chance(1, 2) { 1 + rng.below(2) as u64 } else { 100 + tag as u64 } },
        Shape::Map(inner) => {
            if rng.below(100) < if cfg.rm_burst && top { 55 } else { 68 } {
                DDesc::MapUp { k, inner: Box::new(gen_ddesc(inner, cfg, rng, false, tag)) }
            } else {
                DDesc::MapRm { k, whole: top && rng.chance(if cfg.rm_burst { 3 } else { 1 }, 4) }
            }
        }
    }
}

/// second remove of a burst: another key under the whole-map context, another member list under the whole-set
/// context (or another single member: members added by one add_all share their witness)
fn burst_followup(first: &Desc, cfg: &Config, rng: &mut Rng) -> Option<Desc> {
    let d = match first {
        Desc::D(d) => d,
        _ => return None,
    };
    if !rng.chance(3, 4) {
        return None;
    }
    match d {
        DDesc::MapRm { k, whole: true } if cfg.nkeys > 1 => {
            let k2 = (*k + 1 + rng.below(cfg.nkeys as usize - 1) as u8) % cfg.nkeys;
            Some(Desc::D(DDesc::MapRm { k: k2, whole: true }))
        }
        DDesc::SetRm { m } if cfg.nmembers > 1 => {
            let m2 = (*m + 1 + rng.below(cfg.nmembers as usize - 1) as u8) % cfg.nmembers;
            Some(Desc::D(DDesc::SetRm { m: m2 }))
        }
        DDesc::SetRmAll { ms } if cfg.nmembers > 1 => {
            let other: Vec<u8> = (0..cfg.nmembers).filter(|m| !ms.contains(m)).collect();
            let ms2 = if other.is_empty() { vec![rng.below(cfg.nmembers as usize) as u8] } else { other };
            Some(Desc::D(DDesc::SetRmAll { ms: ms2 }))
        }
        _ => None,
    }
}

/// counter step: small, zero, and — with unusual inputs on — occasionally huge
fn step(cfg: &Config, rng: &mut Rng) -> u64 {
    if cfg.odd_inputs && rng.chance(1, 4) {
        match rng.below(5) {
            0 => u32::MAX as u64,
            // beyond 2^53 (not exact in a double) and odd
            1 => (1u64 << 53) + 1 + 2 * rng.below(4) as u64,
            // two such actors sum past 2^64: the read must not be computed in a machine word
            2 => (1u64 << 63) - 1 - rng.below(3) as u64,
            3 => (1u64 << 62) + 3,
            _ => 255 + rng.below(3) as u64,
        }
    } else {
        rng.below(5) as u64
    }
}

fn seq_len<S: Sut>(w: &World<S>, n: usize) -> usize {
    match &w.nodes[n].last_obs {
        Some(Obs::Seq { vals, .. }) => vals.len(),
        _ => 0,
    }
}

fn gen_desc<S: Sut>(w: &World<S>, g: &mut G, node: usize, tag: u32) -> Desc {
    let rng = &mut g.rng;
    let cfg = &w.cfg;
    match &w.family {
        Family::Dotted(shape) => Desc::D(gen_ddesc(shape, cfg, rng, true, tag)),
        Family::GCounter => {
            if rng.chance(1, 2) {
                Desc::Inc
            } else {
                Desc::IncMany(step(cfg, rng))
            }
        }
        Family::PNCounter => match rng.below(4) {
            0 => Desc::Inc,
            1 => Desc::Dec,
            2 => Desc::IncMany(step(cfg, rng)),
            _ => Desc::DecMany(step(cfg, rng)),
        },
        Family::VClock => Desc::Inc,
        Family::GSet => Desc::Put(rng.below(6) as u64),
        Family::MaxReg | Family::MinReg => Desc::Put(rng.below(100) as u64),
        Family::Lww => Desc::Lww {
            v: if cfg.dup_values && rng.chance(1, 2) { 1 + rng.below(2) as u64 } else { 100 + tag as u64 },
            reuse_marker: cfg.misuse && rng.chance(1, 3),
        },
        Family::List | Family::GList if cfg.long_typing => {
            // forward typing: two base elements first, then every replica keeps inserting right after its
            // own previous insertion
            let len = seq_len(w, node);
            let v = 100 + tag as u64;
            let is_list = w.family == Family::List;
            if len < 2 {
                return if is_list { Desc::LApp { v } } else { Desc::GIns { ix: len, v } };
            }
            let ix = g.cursors[node].min(len.saturating_sub(1)).max(1);
            g.cursors[node] = ix + 1;
            if is_list {
                Desc::LIns { ix, v }
            } else {
                Desc::GIns { ix, v }
            }
        }
        Family::List => {
            let len = seq_len(w, node);
            let v = 100 + tag as u64;
            // positions are biased to collide: front, the slot used last, the end, beyond the end
            let ix = match rng.below(6) {
                0 => 0,
                1 | 2 => g.last_ix.min(len),
                3 => len,
                4 => {
                    if cfg.odd_inputs && rng.chance(1, 3) {
                        usize::MAX / 2
                    } else {
                        len + 1 + rng.below(3)
                    }
                }
                _ => rng.below(len + 1),
            };
            let d = match rng.below(10) {
                0..=5 => Desc::LIns { ix, v },
                6 => Desc::LApp { v },
                _ => {
                    if len == 0 {
                        Desc::LIns { ix: 0, v }
                    } else {
                        Desc::LDel { ix: rng.below(len) }
                    }
                }
            };
            g.last_ix = ix;
            d
        }
        Family::GList => {
            let len = seq_len(w, node);
            // a GList element is its own marker: equal elements at different positions are legal
            let v = if cfg.dup_values && rng.chance(1, 2) { 1 + rng.below(3) as u64 } else { 100 + tag as u64 };
            let ix = match rng.below(5) {
                0 => 0,
                1 | 2 => g.last_ix.min(len),
                3 => len,
                _ => rng.below(len + 1),
            };
            g.last_ix = ix;
            match rng.below(4) {
                0 | 1 => Desc::GIns { ix, v },
                2 if len > 0 => Desc::GAfter { ix: ix.min(len - 1), v },
                3 if len > 0 => Desc::GBefore { ix: ix.min(len - 1), v },
                _ => Desc::GIns { ix, v },
            }
        }
        Family::Merkle => {
            let mask = match rng.below(4) {
                0 | 1 => !0u32,
                2 => rng.next() as u32,
                _ => 0,
            };
            // nodes are content addressed: two replicas writing the same value on the same children
            // produce the same node through two distinct ops
            let v = if cfg.dup_values && rng.chance(1, 2) { 1 + rng.below(2) as u64 } else { 100 + tag as u64 };
            Desc::MWrite { v, mask }
        }
    }
}

fn up_nodes<S: Sut>(w: &World<S>) -> Vec<usize> {
    (0..w.nodes.len()).filter(|n| w.up(*n)).collect()
}

fn any_ref<S: Sut>(w: &World<S>, rng: &mut Rng) -> StateRef {
    let mut refs: Vec<StateRef> = up_nodes(w).into_iter().map(StateRef::Node).collect();
    for g in w.flights.keys() {
        refs.push(StateRef::Flight(*g));
    }
    for (n, x) in w.nodes.iter().enumerate() {
        if x.snap.is_some() {
            refs.push(StateRef::Disk(n));
        }
    }
    if refs.is_empty() {
        StateRef::Node(0)
    } else {
        rng.pick(&refs).clone()
    }
}

fn clock_src<S: Sut>(w: &World<S>, rng: &mut Rng) -> ClockSrc {
    match rng.below(5) {
        0 => ClockSrc::Empty,
        1 | 2 => ClockSrc::NodeClock(rng.below(w.nodes.len())),
        3 if !w.ops.is_empty() => ClockSrc::OpCtx(w.ops[rng.below(w.ops.len())].tag),
        _ if !w.ops.is_empty() => ClockSrc::OpGen(w.ops[rng.below(w.ops.len())].tag),
        _ => ClockSrc::Empty,
    }
}

fn choose_probe<S: Sut>(w: &World<S>, g: &mut G) -> Option<Ev> {
    let cfg = &w.cfg;
    let mut kinds: Vec<&str> = vec![];
    for (clause, kind) in [
        ("laws.commute", "laws"),
        ("mergevsops", "mvo"),
        ("replay.obs", "replay"),
        ("redundant.op", "redundant"),
        ("validate.any", "validate"),
        ("vmerge.probe", "vmerge"),
        ("reset", "reset"),
        ("serde.probe", "serde"),
    ] {
        if cfg.on(clause) {
            kinds.push(kind);
        }
    }
    if kinds.is_empty() {
        return None;
    }
    let rng = &mut g.rng;
    let ups = up_nodes(w);
    if ups.is_empty() {
        return None;
    }
    let node = *rng.pick(&ups);
    let p = match *rng.pick(&kinds) {
        "laws" => Probe::Laws { a: any_ref(w, rng), b: any_ref(w, rng), c: any_ref(w, rng) },
        "mvo" => Probe::MergeVsOps { a: any_ref(w, rng), b: any_ref(w, rng) },
        "replay" => Probe::CausalReplay { node },
        "redundant" => Probe::Redundancy { node },
        "validate" => {
            if w.ops.is_empty() {
                return None;
            }
            Probe::Validate { node, tag: w.ops[rng.below(w.ops.len())].tag }
        }
        "vmerge" => Probe::ValidateMerge { a: any_ref(w, rng), b: any_ref(w, rng) },
        "reset" => Probe::Reset { node, c1: clock_src(w, rng), c2: clock_src(w, rng) },
        _ => Probe::SerdeRoundTrip { node },
    };
    Some(Ev::Probe(p))
}

fn choose_fault<S: Sut>(w: &World<S>, g: &mut G) -> Option<Ev> {
    let cfg = &w.cfg;
    if cfg.faults.is_empty() {
        return None;
    }
    let rng = &mut g.rng;
    let n = w.nodes.len();
    let kind = rng.pick(&cfg.faults).clone();
    match kind.as_str() {
        "dup" => {
            // re-deliver something already known (at-least-once); removes make the interesting duplicates
            let ups = up_nodes(w);
            if ups.is_empty() || w.ops.is_empty() {
                return None;
            }
            let node = *rng.pick(&ups);
            let known: Vec<usize> = (0..w.ops.len()).filter(|i| has(w.nodes[node].k, *i)).collect();
            if known.is_empty() {
                return None;
            }
            Some(Ev::Deliver { node, tag: w.ops[*rng.pick(&known)].tag })
        }
        "drop" => {
            let node = rng.below(n);
            let pend: Vec<usize> = w.nodes[node].pending.iter().copied().collect();
            if pend.is_empty() {
                return None;
            }
            Some(Ev::DropMsg { node, tag: w.ops[*rng.pick(&pend)].tag })
        }
        "partition" => {
            if w.partition != 0 && rng.chance(1, 2) {
                Some(Ev::Heal)
            } else {
                let mask = 1 + rng.below((1usize << n) - 2) as u32;
                Some(Ev::Partition { mask })
            }
        }
        "stall" => {
            let node = rng.below(n);
            if w.nodes[node].stalled {
                Some(Ev::Resume { node })
            } else {
                Some(Ev::Stall { node })
            }
        }
        "crash" => {
            let down: Vec<usize> = (0..n).filter(|x| !w.up(*x)).collect();
            if !down.is_empty() && rng.chance(2, 3) {
                return Some(Ev::Restart { node: *rng.pick(&down), stale: false });
            }
            let ups = up_nodes(w);
            if ups.is_empty() {
                return None;
            }
            let node = *rng.pick(&ups);
            match rng.below(3) {
                0 => Some(Ev::Snapshot { node }),
                _ => {
                    if ups.len() > 1 {
                        Some(Ev::Crash { node, lose_tail: rng.below(4) as u8 })
                    } else {
                        Some(Ev::Snapshot { node })
                    }
                }
            }
        }
        "stale_restart" => {
            // misuse: restore an old backup and keep using the same actor
            let down: Vec<usize> = (0..n).filter(|x| !w.up(*x)).collect();
            if let Some(d) = down.first() {
                return Some(Ev::Restart { node: *d, stale: true });
            }
            let ups = up_nodes(w);
            if ups.len() < 2 {
                return None;
            }
            // prefer crashing a node that has issued ops since its last backup: those dots get re-spent
            let stale: Vec<usize> = ups
                .iter()
                .copied()
                .filter(|n| match &w.nodes[*n].snap {
                    Some((_, sk)) => w.ops.iter().enumerate().any(|(i, o)| o.author == *n && has(w.nodes[*n].k, i) && !has(*sk, i)),
                    None => false,
                })
                .collect();
            if !stale.is_empty() && rng.chance(2, 3) {
                return Some(Ev::Crash { node: *rng.pick(&stale), lose_tail: 0 });
            }
            let node = *rng.pick(&ups);
            if w.nodes[node].snap.is_none() || rng.chance(1, 2) {
                Some(Ev::Snapshot { node })
            } else {
                Some(Ev::Crash { node, lose_tail: 0 })
            }
        }
        "bounce" => {
            let ups = up_nodes(w);
            if ups.is_empty() {
                return None;
            }
            Some(Ev::Bounce { node: *rng.pick(&ups) })
        }
        "clock" => Some(Ev::ClockJump { node: rng.below(n), delta: rng.below(2000) as i64 - 1000 }),
        "stale_state" => {
            if w.flights.is_empty() {
                return None;
            }
            let gids: Vec<u32> = w.flights.keys().copied().collect();
            let ups = up_nodes(w);
            if ups.is_empty() {
                return None;
            }
            Some(Ev::DeliverState { dst: *rng.pick(&ups), gid: *rng.pick(&gids) })
        }
        _ => None,
    }
}

/// candidates for an op delivery at `node`: pending, allowed by the discipline, not partitioned away
fn deliver_candidates<S: Sut>(w: &World<S>, node: usize) -> Vec<(usize, bool)> {
    w.nodes[node]
        .pending
        .iter()
        .copied()
        .filter(|ix| !has(w.nodes[node].k, *ix) && w.deliverable(node, *ix) && w.same_side(w.ops[*ix].author, node))
        .map(|ix| (ix, (w.aops[ix].k_gen & !w.nodes[node].k) != 0))
        .collect()
}

fn choose_progress<S: Sut>(w: &World<S>, g: &mut G) -> Vec<Ev> {
    let cfg = &w.cfg;
    let rng = &mut g.rng;
    let ups: Vec<usize> = up_nodes(w).into_iter().filter(|n| !w.nodes[*n].stalled).collect();
    if ups.is_empty() {
        return vec![Ev::Tick { dt: 1 + rng.below(100) as u64 }];
    }
    let node = *rng.pick(&ups);
    let roll = rng.below(100);
    if roll < 6 {
        return vec![Ev::Tick { dt: 1 + rng.below(100) as u64 }];
    }
    if cfg.held && roll < 14 {
        // mostly at the replica itself; sometimes the client reads at another replica and will write here
        let from = if cfg.disc != Disc::Causal && rng.chance(1, 4) { Some(rng.below(w.nodes.len())) } else { None };
        return vec![Ev::Read { node, from }];
    }
    if roll < 18 && cfg.repl != Repl::State {
        let src = rng.below(w.nodes.len());
        if src != node {
            return vec![Ev::Sync { src, dst: node }];
        }
    }
    let want_state = match cfg.repl {
        Repl::Ops => false,
        Repl::State => true,
        Repl::Hybrid => rng.chance(1, 3),
    } && S::can_merge();
    if want_state {
        let others: Vec<usize> = up_nodes(w).into_iter().filter(|s| *s != node && w.same_side(*s, node)).collect();
        if !w.flights.is_empty() && rng.chance(1, 4) {
            let gids: Vec<u32> = w.flights.keys().copied().collect();
            return vec![Ev::DeliverState { dst: node, gid: *rng.pick(&gids) }];
        }
        if others.is_empty() {
            return vec![];
        }
        let src = *rng.pick(&others);
        let gid = g.next_gid;
        g.next_gid += 1;
        if rng.chance(3, 4) {
            return vec![Ev::Gossip { src, gid }, Ev::DeliverState { dst: node, gid }];
        }
        return vec![Ev::Gossip { src, gid }];
    }
    let cands = deliver_candidates(w, node);
    if cands.is_empty() {
        return vec![];
    }
    // overtaking deliveries (something its author had seen is still missing here) are favoured
    let over: Vec<usize> = cands.iter().filter(|c| c.1).map(|c| c.0).collect();
    let ix = if !over.is_empty() && rng.chance(1, 2) { *rng.pick(&over) } else { rng.pick(&cands).0 };
    let mut evs = vec![Ev::Deliver { node, tag: w.ops[ix].tag }];
    // bursts: deliver a few more back to back
    if rng.chance(1, 4) {
        for (c, _) in cands.iter().take(2) {
            if *c != ix {
                evs.push(Ev::Deliver { node, tag: w.ops[*c].tag });
            }
        }
    }
    evs
}

fn exec_record<S: Sut>(w: &mut World<S>, events: &mut Vec<Ev>, ev: Ev) -> Result<bool, Failure> {
    let r: Res = w.exec(&ev);
    match r {
        Ok(true) => {
            events.push(ev);
            Ok(true)
        }
        Ok(false) => Ok(false),
        Err(f) => {
            events.push(ev);
            Err(f)
        }
    }
}

pub fn generate<S: Sut>(cfg: &Config, seed: u64, log: bool) -> Generated<S> {
    let mut w: World<S> = World::new(cfg, log);
    let mut g = G { rng: Rng::new(seed), next_tag: 1, next_gid: 1, edits: 0, last_ix: 0, cursors: vec![1; cfg.nodes] };
    let mut events: Vec<Ev> = vec![];
    let mut attempts = 0usize;
    macro_rules! run {
        ($ev:expr) => {
            match exec_record(&mut w, &mut events, $ev) {
                Ok(b) => b,
                Err(f) => return Generated { events, world: w, failure: Some(f) },
            }
        };
    }
    let mut force_edit_at: Option<usize> = None;
    while events.len() < cfg.max_events && attempts < cfg.max_events * 6 {
        attempts += 1;
        let roll = g.rng.below(1000) as u32;
        if let Some(Ev::Restart { node, stale: true }) = events.last() {
            // misuse: a replica restored from an old backup goes on editing with the same actor
            force_edit_at = Some(*node);
        }
        if let (Some(node), true) = (force_edit_at, cfg.misuse) {
            force_edit_at = if g.rng.chance(1, 2) { Some(node) } else { None };
            if w.up(node) && g.edits < cfg.max_edits + 3 {
                let tag = g.next_tag;
                g.next_tag += 1;
                let desc = gen_desc(&w, &mut g, node, tag);
                if run!(Ev::Edit { node, tag, desc, held: false, via: 0 }) {
                    g.edits += 1;
                }
                continue;
            }
        }
        if roll < cfg.p_edit && g.edits < cfg.max_edits {
            let ups = up_nodes(&w);
            if ups.is_empty() {
                continue;
            }
            let mut node = *g.rng.pick(&ups);
            if cfg.long_typing && w.up(0) && g.rng.chance(3, 4) {
                // one main typist, so that a single run of insertions gets really long
                node = 0;
            }
            let tag = g.next_tag;
            g.next_tag += 1;
            let desc = gen_desc(&w, &mut g, node, tag);
            let held = cfg.held && w.nodes[node].held.is_some() && g.rng.chance(1, 2);
            let via = g.rng.below(24) as u8;
            let follow = if cfg.rm_burst { burst_followup(&desc, cfg, &mut g.rng) } else { None };
            if run!(Ev::Edit { node, tag, desc, held, via }) {
                g.edits += 1;
                if let Some(desc2) = follow {
                    // same replica, same read, nothing in between: the two removes carry the same clock
                    let tag2 = g.next_tag;
                    g.next_tag += 1;
                    if run!(Ev::Edit { node, tag: tag2, desc: desc2, held, via }) {
                        g.edits += 1;
                        // split delivery: one peer gets the first remove only, another gets both (wherever the
                        // discipline, partitions and crashes allow it; refused deliveries are simply not applied)
                        if w.nodes.len() > 1 && g.rng.chance(1, 2) {
                            let x = (node + 1 + g.rng.below(w.nodes.len() - 1)) % w.nodes.len();
                            let reach = |w: &World<S>, n: usize| w.up(n) && !w.nodes[n].stalled && w.same_side(node, n);
                            if reach(&w, x) {
                                run!(Ev::Deliver { node: x, tag });
                            }
                            if w.nodes.len() > 2 {
                                let mut y = (node + 1 + g.rng.below(w.nodes.len() - 1)) % w.nodes.len();
                                if y == x {
                                    y = (0..w.nodes.len()).find(|n| *n != x && *n != node).unwrap();
                                }
                                if reach(&w, y) {
                                    run!(Ev::Deliver { node: y, tag });
                                    run!(Ev::Deliver { node: y, tag: tag2 });
                                }
                            }
                        }
                    }
                }
            }
        } else if roll < cfg.p_edit + cfg.p_fault {
            if let Some(ev) = choose_fault(&w, &mut g) {
                run!(ev);
            }
        } else if roll < cfg.p_edit + cfg.p_fault + cfg.p_probe {
            if let Some(ev) = choose_probe(&w, &mut g) {
                run!(ev);
            }
        } else {
            for ev in choose_progress(&w, &mut g) {
                run!(ev);
            }
        }
    }
    if cfg.quiesce {
        // faults stop; everything is retransmitted and delivered; bounded by construction
        run!(Ev::Heal);
        for n in 0..w.nodes.len() {
            if w.nodes[n].stalled {
                run!(Ev::Resume { node: n });
            }
            if !w.up(n) {
                run!(Ev::Restart { node: n, stale: false });
            }
        }
        if cfg.repl != Repl::State {
            for s in 0..w.nodes.len() {
                for d in 0..w.nodes.len() {
                    if s != d {
                        run!(Ev::Sync { src: s, dst: d });
                    }
                }
            }
            let bound = w.ops.len() * w.nodes.len() + 4;
            let mut steps = 0;
            loop {
                let mut progressed = false;
                for n in 0..w.nodes.len() {
                    // newly learned ops are re-announced by whoever has them
                    for s in 0..w.nodes.len() {
                        if s != n && (w.nodes[s].k & !w.nodes[n].k) != 0 {
                            run!(Ev::Sync { src: s, dst: n });
                        }
                    }
                    let cands = deliver_candidates(&w, n);
                    if let Some((ix, _)) = cands.first() {
                        let tag = w.ops[*ix].tag;
                        if run!(Ev::Deliver { node: n, tag }) {
                            progressed = true;
                            steps += 1;
                        }
                    }
                }
                if !progressed || steps > bound * 2 {
                    break;
                }
            }
        }
        if cfg.repl != Repl::Ops && S::can_merge() {
            for _round in 0..2 {
                for s in 0..w.nodes.len() {
                    let gid = g.next_gid;
                    g.next_gid += 1;
                    run!(Ev::Gossip { src: s, gid });
                    for d in 0..w.nodes.len() {
                        if d != s {
                            run!(Ev::DeliverState { dst: d, gid });
                        }
                    }
                }
            }
        }
        run!(Ev::Probe(Probe::Converged));
        // closing probes on the converged world
        for n in 0..w.nodes.len() {
            if cfg.on("replay.obs") {
                run!(Ev::Probe(Probe::CausalReplay { node: n }));
            }
            if cfg.on("redundant.op") && n == 0 {
                run!(Ev::Probe(Probe::Redundancy { node: n }));
            }
        }
        if cfg.on("laws.commute") && w.nodes.len() >= 2 {
            let c = if w.nodes.len() > 2 { 2 } else { 0 };
            run!(Ev::Probe(Probe::Laws { a: StateRef::Node(0), b: StateRef::Node(1), c: StateRef::Node(c) }));
        }
    }
    Generated { events, world: w, failure: None }
}

/// re-execute a recorded event list (replay, shrinking, baseline attribution)
pub fn execute<S: Sut>(cfg: &Config, events: &[Ev], log: bool) -> (World<S>, Option<Failure>, Vec<bool>) {
    let mut w: World<S> = World::new(cfg, log);
    let mut applied = vec![];
    for ev in events {
        match w.exec(ev) {
            Ok(b) => applied.push(b),
            Err(f) => {
                applied.push(true);
                return (w, Some(f), applied);
            }
        }
    }
    (w, None, applied)
}
