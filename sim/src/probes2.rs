//! C17 (validate_merge) and C18 (reset_remove) probes.

use crate::engine::{guard, pending_table, Res, World, UNIV};
use crate::model::{self, AInfo, Leaf};
use crate::sut::Sut;
use crate::types::*;

fn fail<T>(step: usize, clause: &str, detail: String) -> Result<T, Failure> {
    Err(Failure { clause: clause.to_string(), step, detail })
}

/// By the public reads of two states: is some dot the current witness of one member / key in one state
/// and of a different one in the other? Returns a description of the first clash found.
fn double_spend(a: &DObs, b: &DObs, path: &str) -> Option<String> {
    match (a, b) {
        (DObs::Set(x), DObs::Set(y)) => {
            for (m1, c1) in x {
                for (m2, c2) in y {
                    if m1 != m2 {
                        for (actor, n) in c1 {
                            if clk_get(c2, *actor) == *n {
                                return Some(format!("{}dot ({},{}) witnesses member {} on one side and member {} on the other", path, actor, n, m1, m2));
                            }
                        }
                    }
                }
            }
            None
        }
        (DObs::Map(x), DObs::Map(y)) => {
            for (k1, (c1, v1)) in x {
                for (k2, (c2, v2)) in y {
                    if k1 != k2 {
                        for (actor, n) in c1 {
                            if clk_get(c2, *actor) == *n {
                                return Some(format!("{}dot ({},{}) witnesses key {} on one side and key {} on the other", path, actor, n, k1, k2));
                            }
                        }
                    } else if let Some(d) = double_spend(v1, v2, &format!("{}nested under key {}: ", path, k1)) {
                        return Some(d);
                    }
                }
            }
            None
        }
        _ => None,
    }
}

pub fn validate_merge_probe<S: Sut>(w: &mut World<S>, a: &StateRef, b: &StateRef) -> Res {
    if !S::can_merge() {
        return Ok(false);
    }
    let (sa, _ka) = match w.state_of(a) {
        Some((s, k)) => (s?, k),
        None => return Ok(false),
    };
    let (sb, _kb) = match w.state_of(b) {
        Some((s, k)) => (s?, k),
        None => return Ok(false),
    };
    w.stats.probe_cases += 1;
    let what = format!("{:?} and {:?}", a, b);
    let v1 = guard(|| sa.validate_merge(&sb));
    let v2 = guard(|| sb.validate_merge(&sa));
    let (v1, v2) = match (v1, v2) {
        (Ok(x), Ok(y)) => (x, y),
        (Err(p), _) | (_, Err(p)) => return fail(w.step, "vmerge.correct", format!("{}: validate_merge panicked: {}", what, p)),
    };
    let ok1 = matches!(v1, Verdict::Ok);
    let ok2 = matches!(v2, Verdict::Ok);
    if w.cfg.on("vmerge.sym") && ok1 != ok2 {
        return fail(w.step, "vmerge.sym", format!("{}: a.validate_merge(b) = {} but b.validate_merge(a) = {}\n  a: {}\n  b: {}", what, v1.show(), v2.show(), dq(sa.dbg()), dq(sb.dbg())));
    }
    if !w.cfg.misuse {
        if w.cfg.on("vmerge.correct") && !(ok1 && ok2) {
            return fail(
                w.step,
                "vmerge.correct",
                format!("{}: validate_merge = {} / {} although every actor was confined to one replica\n  a: {}\n  b: {}", what, v1.show(), v2.show(), dq(sa.dbg()), dq(sb.dbg())),
            );
        }
        return Ok(true);
    }
    // misuse configuration: a re-spent dot that is a current witness on both sides must be flagged
    if w.cfg.on("vmerge.misuse") {
        let (oa, ob) = match (guard(|| sa.obs()), guard(|| sb.obs())) {
            (Ok(x), Ok(y)) => (x, y),
            _ => return Ok(true),
        };
        let clash = match (&oa, &ob) {
            (Obs::Dotted { body: x, .. }, Obs::Dotted { body: y, .. }) => double_spend(x, y, ""),
            (Obs::Lww { val: v1, marker: m1 }, Obs::Lww { val: v2, marker: m2 }) => {
                if m1 == m2 && v1 != v2 {
                    Some(format!("marker {:?} carries value {} on one side and {} on the other", m1, v1, v2))
                } else {
                    None
                }
            }
            _ => None,
        };
        if let Some(c) = clash {
            w.stats.misuse_clashes += 1;
            if ok1 || ok2 {
                return fail(
                    w.step,
                    "vmerge.misuse",
                    format!("{}: {} but validate_merge = {} / {}\n  a: {}\n  b: {}", what, c, v1.show(), v2.show(), oa.show(), ob.show()),
                );
            }
        }
    }
    Ok(true)
}

fn resolve_clock<S: Sut>(w: &World<S>, c: &ClockSrc) -> Option<Clk> {
    match c {
        ClockSrc::Empty => Some(Clk::new()),
        ClockSrc::NodeClock(n) => {
            let k = w.nodes.get(*n)?.k;
            match model::expect(&w.family, &w.aops, k, UNIV) {
                Some(Obs::Dotted { add, .. }) => Some(add),
                Some(Obs::Clock(c)) => Some(c),
                _ => Some(model::clock_of(&w.aops, k)),
            }
        }
        ClockSrc::OpCtx(tag) => {
            let ix = *w.tag_ix.get(tag)?;
            let o = &w.aops[ix];
            match &o.info {
                AInfo::Dotted { leaf: Leaf::SetRm { ctx, .. }, .. } | AInfo::Dotted { leaf: Leaf::KeyRm { ctx, .. }, .. } => Some(ctx.clone()),
                _ => {
                    let mut c = model::clock_of(&w.aops, o.k_read);
                    if let Some(n) = o.dot {
                        clk_bump(&mut c, o.author, n);
                    }
                    Some(c)
                }
            }
        }
        ClockSrc::OpGen(tag) => {
            let ix = *w.tag_ix.get(tag)?;
            Some(model::clock_of(&w.aops, w.aops[ix].k_gen))
        }
    }
}

fn do_reset<S: Sut>(w: &World<S>, s: &S, c: &Clk, clause: &str) -> Result<S, Failure> {
    let mut x = s.clone();
    match guard(move || {
        x.reset_remove(c);
        x
    }) {
        Ok(x) => Ok(x),
        Err(p) => fail(w.step, clause, format!("reset_remove({:?}) panicked: {}", c, p)),
    }
}

fn obs<S: Sut>(w: &World<S>, s: &S, clause: &str) -> Result<Obs, Failure> {
    match guard(|| s.obs()) {
        Ok(o) => Ok(o),
        Err(p) => fail(w.step, clause, format!("reading after reset_remove panicked: {}", p)),
    }
}

/// structural comparison of two states: reads, contexts and pending-remove tables (not `==`, which
/// for MVReg may panic on states that reset_remove can produce)
fn same_structure<S: Sut>(w: &World<S>, a: &S, b: &S, clause: &str, what: &str) -> Result<(), Failure> {
    let (oa, ob) = (obs(w, a, clause)?, obs(w, b, clause)?);
    if oa != ob {
        return fail(w.step, clause, format!("{}\n  left : {}\n  right: {}", what, oa.show(), ob.show()));
    }
    if matches!(w.family, Family::Dotted(Shape::Set) | Family::Dotted(Shape::Map(_))) {
        let (pa, pb) = (pending_table(&a.dbg()), pending_table(&b.dbg()));
        if pa != pb {
            return fail(w.step, clause, format!("{} (pending removes)\n  left : {:?}\n  right: {:?}", what, pa, pb));
        }
    }
    Ok(())
}

pub fn reset_probe<S: Sut>(w: &mut World<S>, node: usize, c1: &ClockSrc, c2: &ClockSrc) -> Res {
    if !S::can_reset() || !w.up(node) {
        return Ok(false);
    }
    let (c1, c2) = match (resolve_clock(w, c1), resolve_clock(w, c2)) {
        (Some(a), Some(b)) => (a, b),
        _ => return Ok(false),
    };
    let k = w.nodes[node].k;
    let st = w.nodes[node].state.clone().unwrap();
    w.stats.probe_cases += 1;
    let o0 = obs(w, &st, "reset")?;
    // 1. exactly what c covers is forgotten
    let r1 = do_reset(w, &st, &c1, "reset")?;
    let o1 = obs(w, &r1, "reset")?;
    // the absolute comparison is made only on replicas that read as the model says before the reset, so
    // that this oracle judges reset_remove and not whatever went wrong earlier
    let before_ok = model::expect(&w.family, &w.aops, k, UNIV).map_or(true, |e| e == o0);
    let pend_before_ok = !matches!(w.family, Family::Dotted(Shape::Set) | Family::Dotted(Shape::Map(_))) || pending_table(&st.dbg()) == Some(model::pending(&w.aops, k));
    if let (true, Some(exp)) = (before_ok, model::expect_after_reset(&w.family, &w.aops, k, &c1, UNIV)) {
        if o1 != exp {
            return fail(
                w.step,
                "reset",
                format!("node {} K={:x}: after reset_remove({:?})\n  before: {}\n  impl  : {}\n  model : {}", node, k, c1, o0.show(), o1.show(), exp.show()),
            );
        }
    }
    if before_ok && pend_before_ok && matches!(w.family, Family::Dotted(Shape::Set) | Family::Dotted(Shape::Map(_))) {
        let exp = model::pending_after_reset(&model::pending(&w.aops, k), &c1);
        match pending_table(&r1.dbg()) {
            Some(t) if t == exp => {}
            t => {
                return fail(
                    w.step,
                    "reset",
                    format!("node {} K={:x}: after reset_remove({:?}) the pending removes are {:?}, expected {:?}", node, k, c1, t, exp),
                )
            }
        }
    }
    // 2. the empty clock changes nothing; the replica's own full clock empties it
    let r0 = do_reset(w, &st, &Clk::new(), "reset")?;
    same_structure(w, &r0, &st, "reset", &format!("node {}: reset_remove(empty clock) changed the replica", node))?;
    let own = match &o0 {
        Obs::Dotted { add, .. } => Some(add.clone()),
        Obs::Clock(c) => Some(c.clone()),
        _ => None,
    };
    if let Some(own) = own {
        let re = do_reset(w, &st, &own, "reset")?;
        let oe = obs(w, &re, "reset")?;
        let empty = match &oe {
            Obs::Dotted { add, body, .. } => {
                add.is_empty()
                    && match body {
                        DObs::Set(m) => m.is_empty(),
                        DObs::Reg(v) => v.is_empty(),
                        DObs::Map(m) => m.is_empty(),
                    }
            }
            Obs::Clock(c) => c.is_empty(),
            _ => true,
        };
        if !empty {
            return fail(w.step, "reset", format!("node {}: reset_remove(own clock {:?}) leaves {}", node, own, oe.show()));
        }
    }
    // 3. c1 then c2 equals their join; repeating is a no-op
    if w.cfg.on("reset.join") {
        let r12 = do_reset(w, &r1, &c2, "reset.join")?;
        let rj = do_reset(w, &st, &clk_join(&c1, &c2), "reset.join")?;
        same_structure(w, &r12, &rj, "reset.join", &format!("node {}: reset_remove({:?}) then reset_remove({:?}) differs from reset_remove of their join", node, c1, c2))?;
    }
    if w.cfg.on("reset.idem") {
        let r11 = do_reset(w, &r1, &c1, "reset.idem")?;
        same_structure(w, &r11, &r1, "reset.idem", &format!("node {}: repeating reset_remove({:?}) changes the replica", node, c1))?;
    }
    Ok(true)
}
