//! C17 (validate_merge) and C18 (reset_remove) probes.

use crate::engine::{Res, World};
use crate::sut::Sut;
use crate::types::*;

pub fn validate_merge_probe<S: Sut>(_w: &mut World<S>, _a: &StateRef, _b: &StateRef) -> Res {
    Ok(false)
}

pub fn reset_probe<S: Sut>(_w: &mut World<S>, _node: usize, _c1: &ClockSrc, _c2: &ClockSrc) -> Res {
    Ok(false)
}
