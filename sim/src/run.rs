//! Batch runner: seeded search over schedules and fault sequences, attribution of failures to the
//! recorded findings, minimisation, replay files, evidence (DESIGN §4, §7, §8).

use crate::findings::{self, Facts};
use crate::gen;
use crate::rng::{hash_str, mix, Rng};
use crate::sut::Sut;
use crate::types::*;
use crate::{base, cur};
use serde::{Deserialize, Serialize};
use std::collections::{BTreeMap, BTreeSet};
use std::sync::atomic::{AtomicUsize, Ordering};
use std::sync::Mutex;

#[derive(Clone, Copy, PartialEq, Eq, Debug)]
pub enum Lib {
    Cur,
    Base,
}

pub struct ExecOut {
    pub failure: Option<Failure>,
    pub soft: Vec<Failure>,
    pub facts: Facts,
    pub stats: crate::engine::Stats,
    pub log: Vec<String>,
    pub applied: Vec<bool>,
    pub distinct_states: usize,
    pub authors: usize,
    pub concurrent: bool,
    pub nops: usize,
}

impl ExecOut {
    /// the failure this run is judged by: the hard one, else the first soft one
    pub fn primary(&self) -> Option<&Failure> {
        self.failure.as_ref().or(self.soft.first())
    }
}

fn finish<S: Sut>(w: crate::engine::World<S>, failure: Option<Failure>, applied: Vec<bool>) -> ExecOut {
    let authors: BTreeSet<usize> = w.ops.iter().map(|o| o.author).collect();
    let mut concurrent = false;
    'o: for i in 0..w.aops.len() {
        for j in 0..i {
            if !has(w.aops[i].k_gen, j) && !has(w.aops[i].seen, j) {
                concurrent = true;
                break 'o;
            }
        }
    }
    ExecOut {
        failure,
        soft: w.soft.clone(),
        facts: Facts { family: w.cfg.family.clone(), disc: Some(w.cfg.disc), merged: w.merged, noncausal_gen: w.stats.noncausal_gen > 0, aops: w.aops.clone() },
        stats: w.stats.clone(),
        log: w.log.clone().unwrap_or_default(),
        applied,
        distinct_states: w.state_hashes.len(),
        authors: authors.len(),
        concurrent,
        nops: w.ops.len(),
    }
}

macro_rules! with_family {
    ($name:expr, $lib:ident, $S:ident, $body:expr) => {
        match $name {
            "orswot" => {
                type $S = $lib::SOrswot;
                $body
            }
            "mvreg" => {
                type $S = $lib::SMvReg;
                $body
            }
            "map_orswot" => {
                type $S = $lib::SMapOrswot;
                $body
            }
            "map_mvreg" => {
                type $S = $lib::SMapMvReg;
                $body
            }
            "map_map_orswot" => {
                type $S = $lib::SMapMapOrswot;
                $body
            }
            "map_map_mvreg" => {
                type $S = $lib::SMapMapMvReg;
                $body
            }
            "gcounter" => {
                type $S = $lib::SGCounter;
                $body
            }
            "pncounter" => {
                type $S = $lib::SPNCounter;
                $body
            }
            "vclock" => {
                type $S = $lib::SVClock;
                $body
            }
            "gset" => {
                type $S = $lib::SGSet;
                $body
            }
            "maxreg" => {
                type $S = $lib::SMaxReg;
                $body
            }
            "minreg" => {
                type $S = $lib::SMinReg;
                $body
            }
            "lww" => {
                type $S = $lib::SLww;
                $body
            }
            "list" => {
                type $S = $lib::SList;
                $body
            }
            "glist" => {
                type $S = $lib::SGList;
                $body
            }
            "merkle" => {
                type $S = $lib::SMerkle;
                $body
            }
            other => panic!("unknown family {}", other),
        }
    };
}

pub fn exec_named(lib: Lib, cfg: &Config, events: &[Ev], log: bool) -> ExecOut {
    let name = cfg.family.as_str();
    match lib {
        Lib::Cur => with_family!(name, cur, S, {
            let (w, f, a) = gen::execute::<S>(cfg, events, log);
            finish(w, f, a)
        }),
        Lib::Base => with_family!(name, base, S, {
            let (w, f, a) = gen::execute::<S>(cfg, events, log);
            finish(w, f, a)
        }),
    }
}

pub fn generate_named(cfg: &Config, seed: u64, log: bool) -> (Vec<Ev>, ExecOut) {
    let name = cfg.family.as_str();
    with_family!(name, cur, S, {
        let g = gen::generate::<S>(cfg, seed, log);
        let n = g.events.len();
        (g.events, finish(g.world, g.failure, vec![true; n]))
    })
}

// -------------------------------------------------------------------------------------------------
// attribution
// -------------------------------------------------------------------------------------------------

#[derive(Clone, Debug, PartialEq)]
pub enum Verdict3 {
    Pass,
    Known(Vec<String>),
    Violation,
}

fn same_failure(a: &Failure, b: &Failure) -> bool {
    a.clause == b.clause && a.step == b.step && signature(&a.detail) == signature(&b.detail)
}

/// judge an executed run of the working tree
pub fn judge(cfg: &Config, events: &[Ev], out: &ExecOut, open: &BTreeSet<String>) -> Verdict3 {
    let f = match out.primary() {
        None => return Verdict3::Pass,
        Some(f) => f,
    };
    let trig: Vec<String> = findings::triggers(&out.facts, f).into_iter().map(|s| s.to_string()).filter(|t| open.contains(t)).collect();
    if trig.is_empty() {
        return Verdict3::Violation;
    }
    let b = exec_named(Lib::Base, cfg, events, false);
    // identical behaviour means: the same judged failure and the same list of soft failures along the run
    let same_soft = out.soft.len() == b.soft.len() && out.soft.iter().zip(b.soft.iter()).all(|(x, y)| same_failure(x, y));
    match b.primary() {
        Some(bf) if same_failure(bf, f) && same_soft => Verdict3::Known(trig),
        _ => Verdict3::Violation,
    }
}

// -------------------------------------------------------------------------------------------------
// minimisation
// -------------------------------------------------------------------------------------------------

pub fn shrink(events: &[Ev], pred: &dyn Fn(&[Ev]) -> bool, budget: usize) -> Vec<Ev> {
    let mut cur: Vec<Ev> = events.to_vec();
    let mut tries = 0usize;
    loop {
        let mut changed = false;
        let mut chunk = (cur.len() / 2).max(1);
        loop {
            let mut i = 0;
            while i < cur.len() {
                if tries >= budget {
                    return cur;
                }
                let end = (i + chunk).min(cur.len());
                let mut cand = cur[..i].to_vec();
                cand.extend_from_slice(&cur[end..]);
                tries += 1;
                if !cand.is_empty() && pred(&cand) {
                    cur = cand;
                    changed = true;
                } else {
                    i = end;
                }
            }
            if chunk == 1 {
                break;
            }
            chunk = (chunk / 2).max(1);
        }
        // simplify single events
        for i in 0..cur.len() {
            let simpler: Option<Ev> = match &cur[i] {
                Ev::Edit { node, tag, desc, held: true, via } => Some(Ev::Edit { node: *node, tag: *tag, desc: desc.clone(), held: false, via: *via }),
                Ev::Edit { node, tag, desc, held, via } if *via != 0 => Some(Ev::Edit { node: *node, tag: *tag, desc: desc.clone(), held: *held, via: 0 }),
                Ev::Crash { node, lose_tail } if *lose_tail > 0 => Some(Ev::Crash { node: *node, lose_tail: 0 }),
                _ => None,
            };
            if let Some(s) = simpler {
                if tries >= budget {
                    return cur;
                }
                let mut cand = cur.clone();
                cand[i] = s;
                tries += 1;
                if pred(&cand) {
                    cur = cand;
                    changed = true;
                }
            }
        }
        if !changed {
            return cur;
        }
    }
}

// -------------------------------------------------------------------------------------------------
// replay files
// -------------------------------------------------------------------------------------------------

#[derive(Clone, Debug, Serialize, Deserialize)]
pub struct ReplayFile {
    pub property: String,
    pub clause: String,
    pub seed: u64,
    pub run: u64,
    pub scenario: String,
    pub config: Config,
    pub events: Vec<Ev>,
    pub failure: Failure,
    pub note: String,
}

pub fn write_replay(path: &str, r: &ReplayFile) -> std::io::Result<()> {
    if let Some(dir) = std::path::Path::new(path).parent() {
        std::fs::create_dir_all(dir)?;
    }
    std::fs::write(path, serde_json::to_string_pretty(r).unwrap())
}

pub fn read_replay(path: &str) -> Result<ReplayFile, String> {
    let t = std::fs::read_to_string(path).map_err(|e| format!("{}: {}", path, e))?;
    serde_json::from_str(&t).map_err(|e| format!("{}: {}", path, e))
}

// -------------------------------------------------------------------------------------------------
// batches
// -------------------------------------------------------------------------------------------------

pub struct Template {
    pub name: String,
    pub make: Box<dyn Fn(&mut Rng) -> Config + Send + Sync>,
}

pub struct RunRecord {
    pub idx: u64,
    pub seed: u64,
    pub scenario: String,
    pub cfg: Config,
    pub events: Vec<Ev>,
    pub out: ExecOut,
    pub verdict: Verdict3,
    pub nontrivial: bool,
    pub seq_hash: u64,
}

pub fn run_seed(property: &str, base_seed: u64, idx: u64) -> u64 {
    mix(mix(base_seed, hash_str(property)), idx)
}

pub fn one_run(property: &str, templates: &[Template], base_seed: u64, idx: u64, open: &BTreeSet<String>, log: bool) -> RunRecord {
    let seed = run_seed(property, base_seed, idx);
    let mut rng = Rng::new(seed);
    let t = &templates[(idx as usize) % templates.len()];
    let cfg = (t.make)(&mut rng);
    let run_seed = rng.next();
    let (events, out) = generate_named(&cfg, run_seed, log);
    let verdict = judge(&cfg, &events, &out, open);
    let nontrivial = out.authors >= 2 && out.concurrent && (out.stats.faults_fired() > 0 || out.stats.removes > 0 || out.stats.merges > 0);
    let seq_hash = hash_str(&format!("{:?}|{:?}", cfg.family, events));
    RunRecord { idx, seed, scenario: t.name.clone(), cfg, events, out, verdict, nontrivial, seq_hash }
}

#[derive(Default)]
pub struct BatchResult {
    pub runs: u64,
    pub stats: crate::engine::Stats,
    pub nontrivial_hashes: BTreeSet<u64>,
    pub distinct_states: u64,
    pub per_scenario: BTreeMap<String, (u64, u64, u64)>,
    pub known: BTreeMap<String, u64>,
    pub violations: Vec<RunRecord>,
    pub samples: Vec<serde_json::Value>,
    pub total_ops: u64,
    pub known_examples: Vec<(u64, String, Vec<String>, Failure)>,
}

pub fn batch(property: &str, templates: &[Template], base_seed: u64, runs: u64, threads: usize, open: &BTreeSet<String>, deadline: Option<std::time::Instant>) -> BatchResult {
    let next = AtomicUsize::new(0);
    let res = Mutex::new(BatchResult::default());
    std::thread::scope(|sc| {
        for _ in 0..threads {
            sc.spawn(|| {
                let mut local = BatchResult::default();
                loop {
                    let i = next.fetch_add(1, Ordering::SeqCst) as u64;
                    if i >= runs {
                        break;
                    }
                    if let Some(d) = deadline {
                        if std::time::Instant::now() > d {
                            break;
                        }
                    }
                    let r = one_run(property, templates, base_seed, i, open, false);
                    local.runs += 1;
                    local.stats.add(&r.out.stats);
                    local.distinct_states += r.out.distinct_states as u64;
                    local.total_ops += r.out.nops as u64;
                    if r.nontrivial {
                        local.nontrivial_hashes.insert(r.seq_hash);
                    }
                    let e = local.per_scenario.entry(r.scenario.clone()).or_insert((0, 0, 0));
                    e.0 += 1;
                    match &r.verdict {
                        Verdict3::Pass => {}
                        Verdict3::Known(fs) => {
                            e.1 += 1;
                            let skip = std::env::var("SIM_EXAMPLE_SKIP").ok();
                            if local.known_examples.len() < 40 && !(skip.is_some() && fs.len() == 1 && Some(&fs[0]) == skip.as_ref()) {
                                local.known_examples.push((r.idx, r.scenario.clone(), fs.clone(), r.out.primary().unwrap().clone()));
                            }
                            for f in fs {
                                *local.known.entry(f.clone()).or_insert(0) += 1;
                            }
                        }
                        Verdict3::Violation => {
                            e.2 += 1;
                            if local.violations.len() < 4 {
                                local.violations.push(r);
                                continue;
                            }
                        }
                    }
                    if i < 3 {
                        local.samples.push(sample_of(&r));
                    }
                }
                let mut g = res.lock().unwrap();
                g.runs += local.runs;
                g.stats.add(&local.stats);
                g.distinct_states += local.distinct_states;
                g.total_ops += local.total_ops;
                g.nontrivial_hashes.extend(local.nontrivial_hashes);
                for (k, v) in local.per_scenario {
                    let e = g.per_scenario.entry(k).or_insert((0, 0, 0));
                    e.0 += v.0;
                    e.1 += v.1;
                    e.2 += v.2;
                }
                for (k, v) in local.known {
                    *g.known.entry(k).or_insert(0) += v;
                }
                g.violations.extend(local.violations);
                g.known_examples.extend(local.known_examples);
                g.samples.extend(local.samples);
            });
        }
    });
    let mut r = res.into_inner().unwrap();
    r.violations.sort_by_key(|v| v.idx);
    r.samples.truncate(3);
    r
}

pub fn sample_of(r: &RunRecord) -> serde_json::Value {
    let evs: Vec<String> = r.events.iter().take(60).map(|e| format!("{:?}", e)).collect();
    serde_json::json!({
        "run": r.idx,
        "seed": r.seed,
        "scenario": r.scenario,
        "family": r.cfg.family,
        "nodes": r.cfg.nodes,
        "discipline": format!("{:?}", r.cfg.disc),
        "replication": format!("{:?}", r.cfg.repl),
        "faults_enabled": r.cfg.faults,
        "events": evs,
        "events_total": r.events.len(),
        "verdict": format!("{:?}", r.verdict),
    })
}
