//! Per-property scenario families and oracle clause sets (DESIGN §5).

use crate::rng::Rng;
use crate::run::Template;
use crate::types::*;

#[derive(Clone)]
pub struct T {
    pub name: &'static str,
    pub family: &'static str,
    pub discs: Vec<Disc>,
    pub repls: Vec<Repl>,
    pub clauses: Vec<&'static str>,
    pub faults: Vec<&'static str>,
    pub held: bool,
    pub json: bool,
    pub misuse: bool,
    pub nodes: (usize, usize),
    pub edits: (usize, usize),
    pub p_probe: u32,
    pub quiesce: bool,
    pub dups: bool,
    pub bounce_every: bool,
    pub redundancy_every: bool,
}

impl Default for T {
    fn default() -> Self {
        T {
            name: "",
            family: "orswot",
            discs: vec![Disc::Causal],
            repls: vec![Repl::Ops],
            clauses: vec![],
            faults: vec!["dup", "drop", "partition", "stall", "crash"],
            held: true,
            json: false,
            misuse: false,
            nodes: (2, 4),
            edits: (2, 12),
            p_probe: 0,
            quiesce: true,
            dups: false,
            bounce_every: false,
            redundancy_every: false,
        }
    }
}

pub fn tmpl(mut t: T) -> Template {
    if THOROUGH.with(|x| x.get()) {
        t.nodes.1 = (t.nodes.1 + 1).min(5);
        t.edits.1 = t.edits.1 + t.edits.1 / 2;
    }
    let name = format!("{}:{}", t.name, t.family);
    Template {
        name,
        make: Box::new(move |rng: &mut Rng| {
            let mut nodes = rng.range(t.nodes.0, t.nodes.1);
            let mut max_edits = rng.range(t.edits.0, t.edits.1);
            // one run in twelve is a long history on few replicas (per-actor counters reach two digits)
            if rng.chance(1, 12) {
                nodes = nodes.min(3);
                max_edits = rng.range(t.edits.1, (t.edits.1 * 3).min(42));
            }
            // sequences: one run in forty is two replicas typing long runs at an advancing cursor
            let long_typing = (t.family == "list" || t.family == "glist") && !t.redundancy_every && !t.bounce_every && rng.chance(1, 40);
            if long_typing {
                nodes = 2;
                max_edits = rng.range(80, 116);
            }
            // actor identifiers: node index, or far apart and in either order
            let actor_ids: Vec<u8> = if rng.chance(1, 2) {
                vec![]
            } else {
                let pool: [u8; 8] = [0, 1, 2, 9, 10, 17, 128, 255];
                let mut ids: Vec<u8> = vec![];
                while ids.len() < nodes {
                    let c = pool[rng.below(pool.len())];
                    if !ids.contains(&c) {
                        ids.push(c);
                    }
                }
                ids
            };
            let disc = *rng.pick(&t.discs);
            let repl = *rng.pick(&t.repls);
            // swarm: each run enables its own subset of fault kinds, sometimes none
            let mut faults: Vec<String> = vec![];
            if !rng.chance(1, 6) {
                for f in t.faults.iter() {
                    if rng.chance(2, 3) {
                        faults.push(f.to_string());
                    }
                }
            }
            if repl != Repl::Ops && t.faults.contains(&"stale_state") && rng.chance(2, 3) && !faults.iter().any(|f| f == "stale_state") {
                faults.push("stale_state".into());
            }
            // one run in six outside C19 also uses serde_json as wire and disk format, with restarts from the
            // serialised form among its faults: state that does not survive a round trip (a cache marked
            // serde(skip), a lossy decoder) must show through the property's own oracles
            let json_wire = t.json || rng.chance(1, 6);
            if json_wire && !t.json && !faults.is_empty() && rng.chance(2, 3) {
                faults.push("bounce".into());
            }
            let p_fault = if faults.is_empty() { 0 } else { 60 + rng.below(120) as u32 };
            // drawn from a copy of the generator so that runs without bursts are exactly the runs of earlier versions
            let rm_burst = {
                let mut r2 = rng.clone();
                for _ in 0..12 {
                    r2.next();
                }
                (t.family.contains("orswot") || t.family.contains("map")) && !t.misuse && r2.chance(1, 4)
            };
            // bursts need two keys / members, and pending removes only meet through merges of states
            let repl = if rm_burst && t.repls.contains(&Repl::Hybrid) { Repl::Hybrid } else { repl };
            let two = t.misuse || rm_burst;
            Config {
                family: t.family.to_string(),
                nodes,
                disc,
                repl,
                nkeys: rng.range(if two { 2 } else { 1 }, 3) as u8,
                nmembers: rng.range(if two { 2 } else { 1 }, 3) as u8,
                max_edits,
                max_events: if long_typing { max_edits * 4 } else { max_edits * 7 + 12 },
                json_wire,
                misuse: t.misuse,
                clauses: t.clauses.iter().map(|s| s.to_string()).collect(),
                faults,
                held: t.held && rng.chance(2, 3),
                p_edit: 200 + rng.below(150) as u32,
                p_fault,
                p_probe: t.p_probe,
                quiesce: t.quiesce,
                // equal values: concurrent equal register writes, re-writing the held LWW value, equal GList elements
                actor_ids,
                long_typing,
                odd_inputs: rng.chance(1, 3),
                bounce_every: t.bounce_every && rng.chance(1, 5),
                redundancy_every: t.redundancy_every && rng.chance(1, 6),
                rm_burst,
                dup_values: (t.dups || t.family.contains("mvreg") || t.family == "lww" || t.family == "merkle") && rng.chance(1, 2),
            }
        }),
    }
}

pub const DOTTED: [&str; 6] = ["orswot", "mvreg", "map_orswot", "map_mvreg", "map_map_orswot", "map_map_mvreg"];
pub const MAPS: [&str; 4] = ["map_orswot", "map_mvreg", "map_map_orswot", "map_map_mvreg"];
pub const SIMPLE: [&str; 7] = ["gcounter", "pncounter", "vclock", "gset", "maxreg", "minreg", "lww"];

/// delivery disciplines the documented contract of a family allows
pub fn discs_of(family: &str) -> Vec<Disc> {
    match family {
        "orswot" | "map_orswot" | "map_mvreg" | "map_map_orswot" | "map_map_mvreg" => vec![Disc::Causal, Disc::Fifo],
        "list" => vec![Disc::Causal],
        _ => vec![Disc::Causal, Disc::Fifo, Disc::Any],
    }
}
pub fn mergeable(family: &str) -> bool {
    family != "list"
}
pub fn all_families() -> Vec<&'static str> {
    let mut v: Vec<&'static str> = DOTTED.to_vec();
    v.extend(SIMPLE);
    v.extend(["list", "glist", "merkle"]);
    v
}

const NET: [&str; 4] = ["dup", "drop", "partition", "stall"];

/// thorough tier: the same scenario families over larger worlds (one more replica, longer histories)
pub fn templates_for(prop: &str, tier: &str) -> Vec<Template> {
    if tier == "thorough" {
        THOROUGH.with(|t| t.set(true));
    }
    let v = templates(prop);
    THOROUGH.with(|t| t.set(false));
    v
}

thread_local! {
    static THOROUGH: std::cell::Cell<bool> = std::cell::Cell::new(false);
}

pub fn templates(prop: &str) -> Vec<Template> {
    let mut v = vec![];
    let with = |a: &[&'static str], b: &[&'static str]| -> Vec<&'static str> { a.iter().chain(b.iter()).copied().collect() };
    match prop {
        "C01" => {
            for f in all_families() {
                v.push(tmpl(T {
                    name: "causal-ops",
                    family: f,
                    discs: vec![Disc::Causal],
                    repls: vec![Repl::Ops],
                    clauses: vec!["ktable.obs", "quiesce", "model", "seq.order", "ctx.consistent"],
                    faults: with(&NET, &["crash"]),
                    edits: if f == "list" || f == "glist" { (2, 16) } else { (2, 12) },
                    ..T::default()
                }));
            }
        }
        "C02" => {
            for f in all_families() {
                if !mergeable(f) {
                    continue;
                }
                v.push(tmpl(T {
                    name: "join-laws",
                    family: f,
                    discs: discs_of(f),
                    repls: vec![Repl::State, Repl::Hybrid],
                    clauses: vec!["laws.commute", "laws.assoc", "laws.idem", "laws.model", "quiesce"],
                    faults: with(&NET, &["crash", "stale_state"]),
                    p_probe: 120,
                    ..T::default()
                }));
            }
        }
        "C03" => {
            for f in all_families() {
                if !mergeable(f) || f == "vclock" {
                    continue;
                }
                v.push(tmpl(T {
                    name: "hybrid",
                    family: f,
                    discs: discs_of(f),
                    repls: vec![Repl::Hybrid],
                    clauses: vec!["ktable.obs", "mergevsops", "quiesce"],
                    faults: with(&NET, &["crash", "stale_state"]),
                    p_probe: 80,
                    ..T::default()
                }));
            }
        }
        "C04" => {
            for (name, repls) in [("ops", vec![Repl::Ops]), ("state", vec![Repl::State]), ("hybrid", vec![Repl::Hybrid])] {
                v.push(tmpl(T {
                    name,
                    family: "orswot",
                    discs: vec![Disc::Causal, Disc::Fifo],
                    repls,
                    clauses: vec!["model", "ctx.consistent", "quiesce", "pending"],
                    faults: with(&NET, &["crash", "stale_state"]),
                    ..T::default()
                }));
            }
        }
        "C05" => {
            for f in MAPS {
                for (name, repls) in [("ops", vec![Repl::Ops]), ("merge", vec![Repl::State, Repl::Hybrid])] {
                    v.push(tmpl(T {
                        name,
                        family: f,
                        discs: vec![Disc::Causal, Disc::Fifo],
                        repls,
                        clauses: vec!["model", "quiesce"],
                        faults: with(&NET, &["crash", "stale_state"]),
                        ..T::default()
                    }));
                }
            }
        }
        "C06" => {
            for (name, repls) in [("ops", vec![Repl::Ops]), ("merge", vec![Repl::State, Repl::Hybrid])] {
                v.push(tmpl(T {
                    name,
                    family: "mvreg",
                    discs: vec![Disc::Any, Disc::Any, Disc::Fifo, Disc::Causal],
                    repls,
                    dups: true,
                    clauses: vec!["model", "ctx.consistent", "quiesce"],
                    faults: with(&NET, &["crash", "stale_state"]),
                    ..T::default()
                }));
            }
        }
        "C07" => {
            for f in DOTTED {
                v.push(tmpl(T {
                    name: "contexts",
                    family: f,
                    discs: discs_of(f),
                    repls: vec![Repl::Ops, Repl::Hybrid, Repl::State],
                    clauses: vec!["model.ctx", "ctx.consistent", "ctx.op"],
                    faults: with(&NET, &["crash", "stale_state"]),
                    ..T::default()
                }));
            }
        }
        "C08" => {
            for f in all_families() {
                if f == "list" {
                    continue;
                }
                let discs: Vec<Disc> = discs_of(f).into_iter().filter(|d| *d != Disc::Causal).collect();
                v.push(tmpl(T {
                    name: "overtaking",
                    family: f,
                    discs,
                    repls: if mergeable(f) { vec![Repl::Ops, Repl::Ops, Repl::Hybrid] } else { vec![Repl::Ops] },
                    clauses: vec!["model", "replay.obs", "ktable.obs", "quiesce", "pending"],
                    faults: with(&NET, &["crash", "stale_state"]),
                    p_probe: 60,
                    ..T::default()
                }));
            }
        }
        "C09" => {
            for f in all_families() {
                v.push(tmpl(T {
                    name: "redundancy",
                    family: f,
                    discs: discs_of(f),
                    repls: if mergeable(f) { vec![Repl::Ops, Repl::Hybrid, Repl::State] } else { vec![Repl::Ops] },
                    clauses: vec!["redundant.op", "redundant.state", "redundant.eq"],
                    redundancy_every: true,
                    faults: with(&NET, &["crash", "stale_state"]),
                    p_probe: 120,
                    edits: (2, 10),
                    ..T::default()
                }));
            }
        }
        "C11" => {
            for f in SIMPLE {
                if f == "vclock" {
                    continue;
                }
                v.push(tmpl(T {
                    name: "aggregate",
                    family: f,
                    discs: vec![Disc::Any],
                    repls: vec![Repl::Ops, Repl::Hybrid, Repl::State],
                    clauses: vec!["model", "mono", "quiesce", "ktable.obs"],
                    faults: with(&NET, &["crash", "stale_state", "clock"]),
                    edits: (2, 14),
                    ..T::default()
                }));
            }
        }
        "C12" => {
            v.push(tmpl(T {
                name: "global-order",
                family: "list",
                discs: vec![Disc::Causal],
                repls: vec![Repl::Ops],
                clauses: vec!["model", "seq.order", "ktable.obs", "quiesce", "ctx.consistent"],
                faults: with(&NET, &["crash"]),
                edits: (3, 18),
                ..T::default()
            }));
        }
        "C13" => {
            v.push(tmpl(T {
                name: "index",
                family: "list",
                discs: vec![Disc::Causal],
                repls: vec![Repl::Ops],
                clauses: vec!["index", "ctx.consistent", "model"],
                faults: NET.to_vec(),
                edits: (3, 18),
                ..T::default()
            }));
            v.push(tmpl(T {
                name: "index",
                family: "glist",
                discs: vec![Disc::Any],
                repls: vec![Repl::Ops, Repl::Hybrid],
                clauses: vec!["index", "ctx.consistent", "model"],
                faults: with(&NET, &["stale_state"]),
                edits: (3, 18),
                ..T::default()
            }));
            // equal elements: identity by value is gone, so only the Vec comparison at the origin, the
            // entry-point cross-checks and convergence are judged
            v.push(tmpl(T {
                name: "index-equal-elements",
                family: "glist",
                discs: vec![Disc::Any],
                repls: vec![Repl::Ops, Repl::Hybrid],
                clauses: vec!["index", "ctx.consistent", "ktable.obs", "quiesce"],
                faults: with(&NET, &["stale_state"]),
                edits: (3, 18),
                dups: true,
                ..T::default()
            }));
        }
        "C15" => {
            for (name, repls) in [("ops", vec![Repl::Ops]), ("merge", vec![Repl::State, Repl::Hybrid])] {
                v.push(tmpl(T {
                    name,
                    family: "merkle",
                    discs: vec![Disc::Any, Disc::Any, Disc::Causal],
                    repls,
                    clauses: vec!["model", "ctx.consistent", "ktable.obs", "ktable.eq", "quiesce", "quiesce.eq"],
                    faults: with(&NET, &["crash", "stale_state"]),
                    edits: (2, 12),
                    ..T::default()
                }));
            }
        }
        "C16" => {
            for f in all_families() {
                v.push(tmpl(T {
                    name: "validate-op",
                    family: f,
                    discs: discs_of(f),
                    repls: if mergeable(f) { vec![Repl::Ops, Repl::Ops, Repl::Hybrid] } else { vec![Repl::Ops] },
                    clauses: vec!["validate.origin", "validate.deliver", "validate.any", "validate.payload"],
                    faults: with(&NET, &["crash"]),
                    p_probe: 150,
                    ..T::default()
                }));
            }
            v.push(tmpl(T {
                name: "validate-op-marker-reuse",
                family: "lww",
                discs: vec![Disc::Any],
                repls: vec![Repl::Ops],
                clauses: vec!["validate.deliver", "validate.any"],
                faults: NET.to_vec(),
                misuse: true,
                quiesce: false,
                p_probe: 150,
                ..T::default()
            }));
        }
        "C17" => {
            for f in ["orswot", "map_orswot", "map_mvreg", "map_map_orswot", "lww", "mvreg", "gcounter", "pncounter", "gset", "glist", "merkle"] {
                v.push(tmpl(T {
                    name: "correct-use",
                    family: f,
                    discs: discs_of(f),
                    repls: vec![Repl::Hybrid, Repl::State],
                    clauses: vec!["vmerge.correct", "vmerge.sym", "vmerge.probe"],
                    faults: with(&NET, &["crash", "stale_state"]),
                    p_probe: 150,
                    ..T::default()
                }));
            }
            for f in ["orswot", "map_orswot", "map_map_orswot", "lww"] {
                v.push(tmpl(T {
                    name: "misuse",
                    family: f,
                    discs: discs_of(f),
                    repls: vec![Repl::Hybrid, Repl::State],
                    clauses: vec!["vmerge.sym", "vmerge.misuse", "vmerge.probe"],
                    faults: vec!["stale_restart", "stale_restart", "dup"],
                    misuse: true,
                    held: false,
                    quiesce: false,
                    p_probe: 200,
                    ..T::default()
                }));
            }
        }
        "C18" => {
            for f in ["vclock", "gcounter", "pncounter", "mvreg", "orswot", "map_orswot", "map_mvreg", "map_map_orswot"] {
                v.push(tmpl(T {
                    name: "reset-remove",
                    family: f,
                    discs: discs_of(f),
                    repls: vec![Repl::Ops, Repl::Hybrid],
                    clauses: vec!["reset", "reset.join", "reset.idem"],
                    faults: with(&NET, &["stale_state"]),
                    p_probe: 200,
                    quiesce: false,
                    ..T::default()
                }));
            }
        }
        "C19" => {
            for f in all_families() {
                v.push(tmpl(T {
                    name: "serde",
                    family: f,
                    discs: discs_of(f),
                    repls: if mergeable(f) { vec![Repl::Ops, Repl::Hybrid, Repl::State] } else { vec![Repl::Ops] },
                    clauses: vec!["serde.probe", "restart.ghost"],
                    faults: vec!["bounce", "bounce", "crash", "crash", "dup", "drop", "stale_state"],
                    json: true,
                    bounce_every: true,
                    p_probe: 80,
                    ..T::default()
                }));
            }
        }
        "C20" => {
            for f in DOTTED {
                v.push(tmpl(T {
                    name: "structural-eq",
                    family: f,
                    discs: discs_of(f),
                    repls: vec![Repl::Ops, Repl::Hybrid, Repl::State],
                    clauses: vec!["ktable.eq", "replay.obs", "replay.eq", "residue", "quiesce", "quiesce.eq"],
                    faults: with(&NET, &["crash", "stale_state"]),
                    p_probe: 80,
                    ..T::default()
                }));
            }
        }
        _ => {}
    }
    v
}

pub const CLAIMED: [&str; 18] =
    ["C01", "C02", "C03", "C04", "C05", "C06", "C07", "C08", "C09", "C11", "C12", "C13", "C15", "C16", "C17", "C18", "C19", "C20"];

pub fn level_of(prop: &str) -> &'static str {
    match prop {
        "C09" | "C19" => "fault_enumeration",
        _ => "exploration",
    }
}
