//! simcheck — deterministic simulation with fault injection for the `crdts` library.
//! See /verif/DESIGN.md. Commands:
//!   simcheck check <Cxx> [--tier quick|thorough] [--seed N] [--runs N] [--threads N]
//!   simcheck replay <file>
//!   simcheck trace <Cxx> <run-index> [--seed N]         print the event log of one run
//!   simcheck selftest-log <Cxx> <runs> [--seed N] [--threads N]   canonical log digest (determinism proof)
//!   simcheck witness <Cxx> <finding> [--seed N] [--runs N]         search a minimal witness of a finding
#![allow(dead_code)]

mod engine;
mod findings;
mod gen;
mod model;
mod probes;
mod probes2;
mod props;
mod rng;
mod run;
mod sut;
mod types;
pub mod cur {
    pub use crdts as lib;
    include!("adapters.rs");
}
pub mod base {
    pub use crdts_base as lib;
    include!("adapters.rs");
}

use run::*;
use std::collections::{BTreeMap, BTreeSet};
use types::*;

const DEFAULT_SEED: u64 = 20261002;

fn verif_root() -> String {
    std::env::var("VERIF_ROOT").unwrap_or_else(|_| "/verif".to_string())
}

fn arg_val(args: &[String], key: &str) -> Option<String> {
    args.iter().position(|a| a == key).and_then(|i| args.get(i + 1).cloned())
}

fn seed_from(args: &[String]) -> u64 {
    arg_val(args, "--seed")
        .or_else(|| std::env::var("VERIF_SEED").ok())
        .and_then(|s| s.trim().parse::<u64>().ok())
        .unwrap_or(DEFAULT_SEED)
}

#[derive(serde::Deserialize, Clone, Debug)]
struct Finding {
    id: String,
    properties: Vec<String>,
    what_fails: String,
    #[serde(default)]
    witness: BTreeMap<String, String>,
}

#[derive(serde::Deserialize, Clone, Debug, Default)]
struct KnownFile {
    #[serde(default)]
    open: Vec<Finding>,
    #[serde(default)]
    fixed: Vec<String>,
}

fn load_known() -> KnownFile {
    let p = format!("{}/known_findings.json", verif_root());
    match std::fs::read_to_string(&p) {
        Ok(t) => match serde_json::from_str(&t) {
            Ok(k) => k,
            Err(e) => {
                eprintln!("harness error: {} does not parse: {}", p, e);
                std::process::exit(2);
            }
        },
        Err(_) => KnownFile::default(),
    }
}

/// does the replay file still fail on the working tree with its recorded clause?
fn reproduces(r: &ReplayFile, log: bool) -> (bool, ExecOut) {
    let out = exec_named(Lib::Cur, &r.config, &r.events, log);
    let ok = match out.primary() {
        Some(f) => f.clause == r.failure.clause,
        None => false,
    };
    (ok, out)
}

fn tier_runs(prop: &str, tier: &str) -> u64 {
    let quick: u64 = match prop {
        "C09" => 60_000,
        "C02" | "C18" => 120_000,
        _ => 160_000,
    };
    if tier == "thorough" {
        quick * 16
    } else {
        quick
    }
}

fn cmd_check(args: &[String]) -> i32 {
    let prop = args.get(0).cloned().unwrap_or_default();
    if !props::CLAIMED.contains(&prop.as_str()) {
        eprintln!("harness error: unknown or unclaimed property {:?}", prop);
        return 2;
    }
    let tier = arg_val(args, "--tier").or_else(|| std::env::var("VERIF_TIER").ok()).unwrap_or_else(|| "quick".into());
    let tier = if tier == "thorough" { "thorough".to_string() } else { "quick".to_string() };
    let seed = seed_from(args);
    let threads: usize = arg_val(args, "--threads").and_then(|s| s.parse().ok()).unwrap_or_else(|| std::thread::available_parallelism().map(|n| n.get()).unwrap_or(8));
    let runs: u64 = arg_val(args, "--runs").and_then(|s| s.parse().ok()).unwrap_or_else(|| tier_runs(&prop, &tier));
    let t0 = std::time::Instant::now();
    println!("simcheck check {} tier={} VERIF_SEED={} runs={} threads={}", prop, tier, seed, runs, threads);

    // 1. recorded findings: a finding is active only while its witness still fails on this tree
    let known = load_known();
    let mut active: BTreeSet<String> = BTreeSet::new();
    let mut known_lines = vec![];
    for f in known.open.iter().filter(|f| f.properties.contains(&prop)) {
        let wpath = match f.witness.get(&prop) {
            Some(p) => format!("{}/{}", verif_root(), p),
            None => continue,
        };
        match read_replay(&wpath) {
            Ok(r) => {
                let (still, _) = reproduces(&r, false);
                if still {
                    active.insert(f.id.clone());
                    let line = format!("KNOWN-FINDING: property={} {}: {} (witness {})", prop, f.id, f.what_fails, wpath);
                    println!("{}", line);
                    known_lines.push(line);
                } else {
                    println!("note: recorded finding {} no longer reproduces on this tree (witness {}); it suppresses nothing", f.id, wpath);
                }
            }
            Err(e) => {
                eprintln!("harness error: {}", e);
                return 2;
            }
        }
    }

    if let Some(a) = arg_val(args, "--assume-open") {
        // development aid: treat the named findings as active without consulting witnesses
        for x in a.split(',') {
            active.insert(x.to_string());
        }
    }
    // 2. seeded search
    let templates = props::templates_for(&prop, &tier);
    let deadline = t0 + std::time::Duration::from_secs(if tier == "thorough" { 3000 } else { 600 });
    let res = batch(&prop, &templates, seed, runs, threads, &active, Some(deadline));

    // 3. violations: minimise, write replay, verify in a fresh process
    let mut violation_lines = vec![];
    for v in res.violations.iter().take(2) {
        let f0 = v.out.primary().unwrap().clone();
        let cfg = v.cfg.clone();
        let active2 = active.clone();
        let clause = f0.clause.clone();
        let pred = move |evs: &[Ev]| -> bool {
            let out = exec_named(Lib::Cur, &cfg, evs, false);
            match out.primary() {
                Some(f) if f.clause == clause => judge(&cfg, evs, &out, &active2) == Verdict3::Violation,
                _ => false,
            }
        };
        let small = shrink(&v.events, &pred, 4000);
        let out = exec_named(Lib::Cur, &v.cfg, &small, false);
        let (events, failure) = match out.primary() {
            Some(f) if f.clause == f0.clause => (small, f.clone()),
            _ => (v.events.clone(), f0.clone()),
        };
        let path = format!("{}/replays/{}-{}-{}.json", verif_root(), prop, v.scenario.replace(':', "_"), v.seed);
        let rf = ReplayFile {
            property: prop.clone(),
            clause: failure.clause.clone(),
            seed,
            run: v.idx,
            scenario: v.scenario.clone(),
            config: v.cfg.clone(),
            events,
            failure: failure.clone(),
            note: format!("found by `simcheck check {} --tier {} --seed {}` run {}; minimised from {} events", prop, tier, seed, v.idx, v.events.len()),
        };
        if let Err(e) = write_replay(&path, &rf) {
            eprintln!("harness error: cannot write {}: {}", path, e);
            return 2;
        }
        // replay in a fresh process must reproduce exactly
        let exe = std::env::current_exe().unwrap();
        let st = std::process::Command::new(exe).arg("replay").arg(&path).arg("--quiet").status();
        let confirmed = matches!(st, Ok(s) if s.code() == Some(1));
        println!("--- violation of {} (clause {}) at step {} of run {} [{}], replay {}confirmed in a fresh process", prop, failure.clause, failure.step, v.idx, v.scenario, if confirmed { "" } else { "NOT " });
        println!("{}", failure.detail);
        let line = format!("VIOLATION property={} replay={}", prop, path);
        println!("{}", line);
        violation_lines.push(line);
    }

    // 4. evidence
    let wall = t0.elapsed().as_secs_f64();
    let total_violations: u64 = res.per_scenario.values().map(|v| v.2).sum();
    let s = &res.stats;
    let scen: BTreeMap<String, serde_json::Value> =
        res.per_scenario.iter().map(|(k, v)| (k.clone(), serde_json::json!({"runs": v.0, "attributed_to_known_findings": v.1, "violations": v.2}))).collect();
    let ev = serde_json::json!({
        "property_id": prop,
        "tier": tier,
        "seed": seed,
        "level": props::level_of(&prop),
        "wall_s": wall,
        "violations": total_violations,
        "coverage": {
            "evaluations": res.runs,
            "distinct_nontrivial": res.nontrivial_hashes.len(),
            "rule": "one evaluation = one simulated run (seeded swarm configuration, then a PRNG-chosen schedule of edits, deliveries, merges, faults and probes, then a quiescence phase); non-trivial = at least two replicas issued edits, at least one pair of ops is concurrent, and at least one fault fired or a remove/merge took part; distinct = different hash of (type, full event list)",
            "samples": res.samples,
            "simulated_runs_per_hour": if wall > 0.0 { (res.runs as f64 / wall * 3600.0) as u64 } else { 0 },
            "simulated_time_ticks": s.sim_time,
            "kernel_events": s.events,
            "oracle_evaluations": s.checks,
            "edits": s.edits,
            "ops_generated": res.total_ops,
            "distinct_abstract_states_summed_over_runs": res.distinct_states,
            "faults_fired": {
                "duplicate_delivery": s.dup_delivers,
                "overtaking_delivery": s.overtaking,
                "message_drop": s.drops,
                "partition": s.partitions,
                "stall": s.stalls,
                "crash": s.crashes,
                "restart": s.restarts,
                "journal_entries_lost_in_crash": s.journal_lost,
                "serde_bounce": s.bounces,
                "stale_state_merge": s.stale_merges,
                "clock_jump": s.clock_jumps,
                "stale_backup_restart_misuse": s.stale_restarts,
            },
            "misuse_double_spends_seen_by_public_reads": s.misuse_clashes,
            "other_events": {
                "deliveries": s.delivers, "state_merges": s.merges, "snapshots": s.snapshots, "anti_entropy_syncs": s.syncs,
                "edits_from_held_reads": s.held_edits, "reads_taken_at_another_replica": s.foreign_reads, "removes": s.removes, "edits_at_non_causally_closed_replicas": s.noncausal_gen,
                "probes": s.probes, "probe_cases": s.probe_cases,
            },
            "scenarios": scen,
            "runs_attributed_to_known_findings": res.known,
            "known_finding_lines": known_lines,
            "components": {
                "real": "every crdts type and method under /repo (apply, merge, validate_*, reset_remove, reads, contexts, Identifier), its serde impls, serde_json",
                "stub": "network, delivery discipline (causal / per-actor FIFO / any), node disks (snapshot + journal), crash/restart, clients holding reads, clocks (LWW markers only), anti-entropy",
                "baseline_copy": "verif/baseline (pinned copy of /repo/src) — used only to attribute failing runs to recorded findings, never to pass a run"
            },
            "exhaustive": false
        },
        "assumptions": [
            "sampling, not enumeration: a clean batch is evidence, not proof",
            "small worlds (2-4 replicas, <=3 keys, <=3 members, <=18 edits) are representative (per-actor / per-element independence of the algorithms)",
            "reference models and trigger predicates are part of the trusted base (validated against the code, see DESIGN.md §3, §7)"
        ]
    });
    // sensitivity runs on deliberately broken trees (tools/mutants.sh) must not overwrite the evidence of the unchanged tree
    let edir = std::env::var("VERIF_EVIDENCE_DIR").unwrap_or_else(|_| format!("{}/evidence", verif_root()));
    let epath = format!("{}/{}.json", edir, prop);
    let _ = std::fs::create_dir_all(&edir);
    if let Err(e) = std::fs::write(&epath, serde_json::to_string_pretty(&ev).unwrap()) {
        eprintln!("harness error: cannot write {}: {}", epath, e);
        return 2;
    }
    if args.iter().any(|a| a == "--verbose") {
        for (k, v) in res.per_scenario.iter() {
            println!("  scenario {:40} runs={:7} known={:6} violations={}", k, v.0, v.1, v.2);
        }
        let mut seen = BTreeSet::new();
        for (idx, sc, fs, f) in res.known_examples.iter() {
            if seen.insert((sc.clone(), f.clause.clone(), fs.clone())) {
                println!("  known example: run {} {} {:?} clause {} step {}: {}", idx, sc, fs, f.clause, f.step, f.detail.lines().next().unwrap_or(""));
            }
        }
    }
    println!(
        "{}: {} runs ({} distinct non-trivial), {} kernel events, {} faults fired, {} runs attributed to known findings {:?}, {} violations, {:.1}s",
        prop,
        res.runs,
        res.nontrivial_hashes.len(),
        s.events,
        s.faults_fired(),
        res.known.values().sum::<u64>(),
        res.known,
        total_violations,
        wall
    );
    if violation_lines.is_empty() && total_violations == 0 {
        0
    } else {
        1
    }
}

fn cmd_replay(args: &[String]) -> i32 {
    let path = match args.get(0) {
        Some(p) => p.clone(),
        None => {
            eprintln!("usage: simcheck replay <file>");
            return 2;
        }
    };
    let quiet = args.iter().any(|a| a == "--quiet");
    let r = match read_replay(&path) {
        Ok(r) => r,
        Err(e) => {
            eprintln!("harness error: {}", e);
            return 2;
        }
    };
    if args.iter().any(|a| a == "--judge") {
        let out = exec_named(Lib::Cur, &r.config, &r.events, false);
        let b = exec_named(Lib::Base, &r.config, &r.events, false);
        println!("cur : {:?}", out.primary());
        println!("base: {:?}", b.primary());
        if let Some(f) = out.primary() {
            println!("triggers: {:?}", findings::triggers(&out.facts, f));
        }
        return 0;
    }
    let (ok, out) = reproduces(&r, !quiet);
    if !quiet {
        for l in out.log.iter() {
            println!("{}", l);
        }
    }
    match out.primary() {
        Some(f) if ok => {
            if !quiet {
                println!("REPRODUCED property={} clause={} step={}\n{}", r.property, f.clause, f.step, f.detail);
            }
            let exact = f.step == r.failure.step && signature(&f.detail) == signature(&r.failure.detail);
            if !quiet {
                println!("identical to the recorded failure: {}", exact);
            }
            println!("VIOLATION property={} replay={}", r.property, path);
            1
        }
        Some(f) => {
            println!("the recorded clause {} no longer fails; another clause does: {} at step {}\n{}", r.failure.clause, f.clause, f.step, f.detail);
            1
        }
        None => {
            println!("not reproduced: the history passes on this tree");
            0
        }
    }
}

fn cmd_trace(args: &[String]) -> i32 {
    let prop = args.get(0).cloned().unwrap_or_default();
    let idx: u64 = args.get(1).and_then(|s| s.parse().ok()).unwrap_or(0);
    let seed = seed_from(args);
    let templates = props::templates(&prop);
    let open: BTreeSet<String> = load_known().open.iter().map(|f| f.id.clone()).collect();
    let r = one_run(&prop, &templates, seed, idx, &open, true);
    println!("run {} seed {} scenario {} cfg {:?}", idx, r.seed, r.scenario, r.cfg);
    for l in r.out.log.iter() {
        println!("{}", l);
    }
    println!("verdict: {:?}", r.verdict);
    if let Some(f) = r.out.primary() {
        println!("failure: {} at step {}\n{}", f.clause, f.step, f.detail);
        println!("triggers: {:?}", findings::triggers(&r.out.facts, f));
    }
    0
}

/// digest of the canonical logs of many runs; two processes must print the same digest
fn cmd_selftest_log(args: &[String]) -> i32 {
    let prop = args.get(0).cloned().unwrap_or_default();
    let runs: u64 = args.get(1).and_then(|s| s.parse().ok()).unwrap_or(1000);
    let seed = seed_from(args);
    let threads: usize = arg_val(args, "--threads").and_then(|s| s.parse().ok()).unwrap_or(8);
    let templates = props::templates(&prop);
    let open: BTreeSet<String> = load_known().open.iter().map(|f| f.id.clone()).collect();
    let next = std::sync::atomic::AtomicUsize::new(0);
    let digests = std::sync::Mutex::new(BTreeMap::new());
    std::thread::scope(|sc| {
        for _ in 0..threads {
            sc.spawn(|| loop {
                let i = next.fetch_add(1, std::sync::atomic::Ordering::SeqCst) as u64;
                if i >= runs {
                    break;
                }
                let r = one_run(&prop, &templates, seed, i, &open, true);
                let mut text = format!("{:?}\n{:?}\n", r.cfg, r.events);
                for l in r.out.log.iter() {
                    text.push_str(&signature(l));
                    text.push('\n');
                }
                text.push_str(&format!("{:?}", r.verdict));
                if let Some(f) = r.out.primary() {
                    text.push_str(&format!("{} {} {}", f.clause, f.step, signature(&f.detail)));
                }
                digests.lock().unwrap().insert(i, rng::hash_str(&text));
            });
        }
    });
    let d = digests.into_inner().unwrap();
    let mut all = 0u64;
    for (i, h) in d.iter() {
        all = rng::mix(all, *h ^ *i);
        if args.iter().any(|a| a == "--per-run") {
            println!("{} {:016x}", i, h);
        }
    }
    println!("DIGEST {} runs={} seed={} {:016x}", prop, runs, seed, all);
    0
}

/// search for a small history that fails and is attributed to the given finding (preferably to it alone)
fn cmd_witness(args: &[String]) -> i32 {
    let prop = args.get(0).cloned().unwrap_or_default();
    let fid = args.get(1).cloned().unwrap_or_default();
    let seed = seed_from(args);
    let runs: u64 = arg_val(args, "--runs").and_then(|s| s.parse().ok()).unwrap_or(200_000);
    let all: Vec<String> = arg_val(args, "--all").unwrap_or_else(|| "F1,F2,F3,F4,F5,F6,F7,F10,F11".into()).split(',').map(|s| s.to_string()).collect();
    let templates = props::templates(&prop);
    let open: BTreeSet<String> = all.iter().cloned().collect();
    // (number of findings the history is attributed to, number of events)
    let mut best: Option<((usize, usize), Vec<Ev>, Config, Failure, String, u64)> = None;
    let mut shrunk = 0;
    for i in 0..runs {
        let r = one_run(&prop, &templates, seed, i, &open, false);
        if let Verdict3::Known(fs) = &r.verdict {
            if !fs.contains(&fid) {
                continue;
            }
            if let Some(b) = &best {
                if fs.len() > b.0 .0 {
                    continue;
                }
            }
            let f0 = r.out.primary().unwrap().clone();
            let cfg = r.cfg.clone();
            let open2 = open.clone();
            let clause = f0.clause.clone();
            let fid2 = fid.clone();
            let nfs = fs.len();
            let pred = move |evs: &[Ev]| -> bool {
                let out = exec_named(Lib::Cur, &cfg, evs, false);
                match out.primary() {
                    Some(f) if f.clause == clause => matches!(judge(&cfg, evs, &out, &open2), Verdict3::Known(ref k) if k.contains(&fid2) && k.len() <= nfs),
                    _ => false,
                }
            };
            let small = shrink(&r.events, &pred, 2500);
            shrunk += 1;
            let out = exec_named(Lib::Cur, &r.cfg, &small, false);
            if let (Some(f), Verdict3::Known(k)) = (out.primary(), judge(&r.cfg, &small, &out, &open)) {
                let score = (k.len(), small.len());
                if best.as_ref().map_or(true, |b| score < b.0) {
                    best = Some((score, small, r.cfg.clone(), f.clone(), r.scenario.clone(), i));
                }
            }
            if let Some(b) = &best {
                if (b.0 .0 == 1 && b.0 .1 <= 7) || shrunk >= 60 {
                    break;
                }
            }
        }
    }
    match best {
        Some((score, events, cfg, failure, scenario, idx)) => {
            let path = format!("{}/known/{}-{}.json", verif_root(), fid, prop);
            let rf = ReplayFile {
                property: prop.clone(),
                clause: failure.clause.clone(),
                seed,
                run: idx,
                scenario,
                config: cfg,
                events,
                failure,
                note: format!("witness of recorded finding {} for property {} (history carries the triggers of {} finding(s))", fid, prop, score.0),
            };
            write_replay(&path, &rf).unwrap();
            println!("wrote {} ({} events, {} trigger(s))", path, rf.events.len(), score.0);
            0
        }
        None => {
            println!("no run attributed to {} among {} runs of {}", fid, runs, prop);
            1
        }
    }
}

fn main() {
    // panics of the library are verdicts, caught per step; keep stderr quiet
    std::panic::set_hook(Box::new(|_| {}));
    let args: Vec<String> = std::env::args().skip(1).collect();
    let code = match args.get(0).map(|s| s.as_str()) {
        Some("check") => cmd_check(&args[1..]),
        Some("replay") => cmd_replay(&args[1..]),
        Some("trace") => cmd_trace(&args[1..]),
        Some("selftest-log") => cmd_selftest_log(&args[1..]),
        Some("witness") => cmd_witness(&args[1..]),
        _ => {
            eprintln!("usage: simcheck check|replay|trace|selftest-log|witness ...");
            2
        }
    };
    std::process::exit(code);
}
