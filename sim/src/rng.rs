//! The only source of randomness: splitmix64 seeded from VERIF_SEED (DESIGN §2.2).

#[derive(Clone, Debug)]
pub struct Rng(pub u64);

impl Rng {
    pub fn new(seed: u64) -> Self {
        Rng(seed)
    }
    pub fn next(&mut self) -> u64 {
        self.0 = self.0.wrapping_add(0x9E3779B97F4A7C15);
        let mut z = self.0;
        z = (z ^ (z >> 30)).wrapping_mul(0xBF58476D1CE4E5B9);
        z = (z ^ (z >> 27)).wrapping_mul(0x94D049BB133111EB);
        z ^ (z >> 31)
    }
    /// uniform in 0..n (n > 0)
    pub fn below(&mut self, n: usize) -> usize {
        (self.next() % n as u64) as usize
    }
    /// true with probability num/den
    pub fn chance(&mut self, num: u32, den: u32) -> bool {
        (self.next() % den as u64) < num as u64
    }
    pub fn range(&mut self, lo: usize, hi_incl: usize) -> usize {
        lo + self.below(hi_incl - lo + 1)
    }
    pub fn pick<'a, T>(&mut self, v: &'a [T]) -> &'a T {
        &v[self.below(v.len())]
    }
}

/// Stable 64-bit mix used to derive per-run seeds and to hash canonical strings.
pub fn mix(a: u64, b: u64) -> u64 {
    let mut r = Rng(a ^ b.wrapping_mul(0xD6E8FEB86659FD93));
    r.next() ^ b.rotate_left(17)
}

pub fn hash_str(s: &str) -> u64 {
    // FNV-1a, deterministic across processes (std's DefaultHasher with fixed keys would do too)
    let mut h: u64 = 0xcbf29ce484222325;
    for b in s.as_bytes() {
        h ^= *b as u64;
        h = h.wrapping_mul(0x100000001b3);
    }
    h
}
