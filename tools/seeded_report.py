#!/usr/bin/env python3
"""Development tool: turns seeded/RESULTS.tsv and mutants/RESULTS.tsv into the tables of DESIGN.md §9.5 and fills
`checks_run` in seeded/*/meta.json."""
import csv, json, os, sys
os.chdir(os.path.join(os.path.dirname(__file__), '..'))
def rows(p):
    if not os.path.exists(p): return []
    return list(csv.DictReader(open(p), delimiter='\t'))
out = []
out.append("| seeded change | target | site | caught by (quick tier, all 18 checks run) |")
out.append("|---|---|---|---|")
for r in rows('seeded/RESULTS.tsv'):
    name = r['mutant']
    mp = f'seeded/{name}/meta.json'
    if not os.path.exists(mp): continue
    m = json.load(open(mp))
    caught = r['caught_by'].split()
    target_hit = m['property'] in caught
    m['checks_run'] = f"tools/mutants.sh --all-props seeded/{name}/patch.diff (git -C /repo apply; ./check <Cxx> --tier quick for all 18 claimed properties; git -C /repo checkout -- .): VIOLATION reported by {' '.join(caught) or 'none'}; target property {m['property']} {'caught' if target_hit else 'NOT caught'}"
    json.dump(m, open(mp, 'w'), indent=1)
    out.append(f"| {name} | {m['property']} | {m['file']} | {'**'+m['property']+'** ' if target_hit else '(target missed) '}{' '.join(c for c in caught if c != m['property'])} |")
print('\n'.join(out))
print()
mr = rows('mutants/RESULTS.tsv')
if mr:
    print("| round-0 mutant | expected | caught by | not caught by |")
    print("|---|---|---|---|")
    for r in mr:
        print(f"| {r['mutant']} | {r['expected']} | {r['caught_by'].strip()} | {r['not_caught_by'].strip()} |")
