#!/bin/bash
# Development tool: large sweep of every property with all recorded findings assumed open; lists
# attributions and any unexplained failure. usage: tools/sweep.sh <runs> [seed] [props...]
cd "$(dirname "$0")/.."
runs=${1:-1000000}; seed=${2:-20261002}; shift; shift
props=${@:-C01 C02 C03 C04 C05 C06 C07 C08 C09 C11 C12 C13 C15 C16 C17 C18 C19 C20}
for p in $props; do
  VERIF_ROOT=${SWEEP_ROOT:-/tmp/vr} sim/target/release/simcheck check $p --runs $runs --seed $seed --assume-open F1,F2,F3,F4,F5,F6,F7,F10,F11 --verbose 2>&1 | grep -E "^(C[0-9]+:|---|VIOLATION|  scenario .*violations=[1-9])" | cut -c1-300
done
