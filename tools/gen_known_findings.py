#!/usr/bin/env python3
"""Development tool: rewrites /verif/known_findings.json from the descriptions below and the witness replays
present under /verif/known/. Never run by a check (the checks only read the file)."""
import json, glob, os
os.chdir(os.path.join(os.path.dirname(__file__), '..'))
desc = {
 "F1": ("MVReg values nested in a Map carry the whole map context; Map::apply_keyset_rm / Map::merge subtract clocks from them (map.rs apply_keyset_rm, merge; mvreg.rs reset_remove), leaving partially truncated contexts: zombie values, wrong domination, == differences, and duplicate (clock, value) pairs on which MVReg's == panics (its 'sanity check')",
        "Map<_, MVReg> (any nesting depth): replicas with equal knowledge read / compare differently (or == panics) after a key remove or a state merge",
        "nested MVReg AND (some key remove OR some state merge) in the history"),
 "F2": ("Map::merge derives the deleted information by clock subtraction, which forgets a removed dot (a,n1) when the entry keeps a later dot (a,n2>n1) of the same actor (map.rs merge)",
        "Map merge resurrects / keeps data under a key that was removed when the same actor updated the key again after the remove",
        "a key remove on path p covers an update of actor a under p but not a later update of a under p AND a state merge happens"),
 "F3": ("an update whose nested op is a remove re-creates the removed entry and the nested remove stays pending for ever (map.rs apply Up + orswot.rs apply_rm / map.rs apply_keyset_rm)",
        "Map replicas with equal knowledge are not == (residual empty entry / pending nested remove) although their reads agree",
        "an update whose nested op is a remove under path p AND a key remove on a prefix of p; only ==/residue clauses"),
 "F4": ("a key remove drops the entry together with the nested pending removes (map.rs apply_keyset_rm) under non-causal delivery",
        "Map under per-actor FIFO delivery: a nested remove that overtook its add is lost when the key is removed, the add later resurrects",
        "delivery discipline is not causal AND a nested remove under path p AND a key remove on a prefix of p"),
 "F5": ("Map::validate_op validates the nested op against the nested value's own clock, which only holds the dots of updates to that key / member and legitimately has gaps (map.rs validate_op -> Orswot::validate_op / nested Map::validate_op); the entry-clock half of this defect was repaired (fixed: aaec6de)",
        "Map<_, Orswot> / Map<_, Map<..>>::validate_op rejects API-produced in-order ops with Value(..), e.g. at their own origin",
        "verdict is Value(..) (or SourceOrder) for an op that skips nothing of its actor"),
 "F6": ("Orswot::validate_merge treats one dot on two members as a double spend; add_all does that by design (orswot.rs validate_merge)",
        "validate_merge returns DoubleSpentDot under correct use when add_all added several members",
        "reported verdict is DoubleSpentDot AND the history contains an add_all with at least two members"),
 "F7": ("the pending-remove tables are HashMap<VClock, _> with derived Serialize; serde_json rejects non-string keys (orswot.rs, map.rs `deferred`)",
        "a replica holding a pending remove cannot be serialised with serde_json: 'key must be a string'",
        "serialisation error text is 'key must be a string' AND the state holds a non-empty pending-remove table"),
 "F10": ("Map::validate_merge validates nested values only when the two entry clocks are concurrent (map.rs validate_merge)",
        "an actor used at two replicas re-spends a dot under the same key: validate_merge returns Ok both ways and the merge silently drops data",
        "misuse configuration AND the clash is between values nested under the same key"),
 "F11": ("the context of a nested register write is the map clock (map.rs get + ctx.rs), which under per-actor FIFO delivery can lack dots that the value being overwritten carries",
        "Map<_, MVReg> under FIFO delivery: a write does not supersede the value its author read",
        "nested MVReg AND delivery discipline is not causal AND an edit was issued at, or from a read of, a replica whose knowledge is not causally closed"),
}
pairs = {}
for f in sorted(glob.glob('known/*.json')):
    b = os.path.basename(f)[:-5]
    fid, prop = b.split('-')
    pairs.setdefault(fid, {})[prop] = f
order = ["F1", "F2", "F3", "F4", "F5", "F6", "F7", "F10", "F11"]
out = {"_comment": "Recorded genuine defects of the pinned tree (DESIGN.md §6, §9.3). A finding is identified by its mechanism, a trigger predicate over the simulator's abstract history, and one witness replay per affected property; a failing run is attributed to it only if the finding is listed for the property being checked, its witness still fails, a trigger holds on the run AND the pinned baseline copy fails identically. Never written at run time.",
       "open": [], "fixed": []}
for fid in order:
    m, w, t = desc[fid]
    out["open"].append({"id": fid, "properties": sorted(pairs.get(fid, {}).keys()), "mechanism": m, "what_fails": w, "trigger": t, "witness": pairs.get(fid, {})})
out["fixed"].append("fixed: property=C18 f8ca560 Orswot::reset_remove / Map::reset_remove lost one of two pending removes whose contexts collapse to the same clock (which one depended on HashMap iteration order); first seen under C19 as a restored replica that differed from the crashed one in one process out of three")
out["fixed"].append("fixed: property=C16 aaec6de Map::validate_op validated the update's dot against the entry clock and rejected in-order API-produced ops with SourceOrder as soon as their actor had edited another key (the nested-value half of the same defect stays open as F5)")
json.dump(out, open('known_findings.json', 'w'), indent=1)
print({k: sorted(v) for k, v in pairs.items()})
