#!/bin/bash
# Sensitivity self-test (not a registered check): applies each patch of a corpus to /repo's working tree,
# runs quick checks, records which ones report a violation, and reverts /repo straight afterwards.
# usage: tools/mutants.sh [--all-props] [--runs N] [patch files...]    (default corpus: mutants/*.patch)
#        result table: mutants/RESULTS.tsv   (mutant, expected, caught-by, missed-by)
cd "$(dirname "$0")/.."
# evidence written while /repo is deliberately broken goes to a scratch directory
export VERIF_EVIDENCE_DIR=${VERIF_EVIDENCE_DIR:-/tmp/verif-mutants-evidence}
ALLPROPS="C01 C02 C03 C04 C05 C06 C07 C08 C09 C11 C12 C13 C15 C16 C17 C18 C19 C20"
all=0; runs=""
while [[ "${1:-}" == --* ]]; do
  case "$1" in
    --all-props) all=1; shift ;;
    --runs) runs="--runs $2"; shift; shift ;;
    *) break ;;
  esac
done
files=${@:-mutants/*.patch}
if [ -n "$(git -C /repo status --porcelain -- src)" ]; then echo "/repo/src has uncommitted changes; refusing" >&2; exit 2; fi
out=${MUTANTS_OUT:-mutants/RESULTS.tsv}
[ -f "$out" ] || printf "mutant\texpected\tcaught_by\tnot_caught_by\n" > "$out"
for f in $files; do
  name=$(basename "$f" .patch); name=${name%.diff}
  expected=$(grep -h "^# expected to be caught by:" "$f" | sed 's/.*by: *//')
  if [ "$(basename "$f")" = patch.diff ]; then
    name=$(basename "$(dirname "$f")")
    expected=$(python3 -c "import json,sys; m=json.load(open(sys.argv[1])); print(' '.join([m['property']]+[x.split()[0] for x in m.get('also_breaks',[])]))" "$(dirname "$f")/meta.json" 2>/dev/null)
  fi
  if ! grep -v '^#' "$f" | git -C /repo apply --check - 2>/dev/null; then
    if ! grep -v '^#' "$f" | (cd /repo && patch -p1 --dry-run -s >/dev/null 2>&1); then echo "$name: does not apply"; printf "%s\t%s\tDOES-NOT-APPLY\t\n" "$name" "$expected" >> "$out"; continue; fi
    grep -v '^#' "$f" | (cd /repo && patch -p1 -s)
  else
    grep -v '^#' "$f" | git -C /repo apply -
  fi
  props=$expected
  if [ $all = 1 ] || ! echo "$expected" | grep -q "^C"; then props=$ALLPROPS; fi
  caught=""; missed=""
  for p in $props; do
    case $p in C[0-9]*) ;; *) continue ;; esac
    o=$(./check $p --tier quick $runs 2>&1); rc=$?
    if [ $rc = 1 ] && echo "$o" | grep -q "^VIOLATION property=$p"; then caught="$caught $p"; elif [ $rc = 2 ]; then caught="$caught $p(harness-error)"; else missed="$missed $p"; fi
  done
  git -C /repo checkout -- . ; find /repo -name '*.orig' -newer "$f" -delete 2>/dev/null
  echo "$name: expected [$expected] caught [$caught] missed [$missed]"
  printf "%s\t%s\t%s\t%s\n" "$name" "$expected" "$caught" "$missed" >> "$out"
done
# leave the simulator built against the clean tree
(cd sim && cargo build --release --offline 2>/dev/null)
