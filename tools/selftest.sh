#!/bin/bash
# Determinism self-test (DESIGN §7): every run is executed with its full canonical event log (events,
# canonical observations after every step, verdict) in separate processes — different HashMap keys —
# at two worker counts; the per-batch digests must be identical.
# usage: tools/selftest.sh [runs-per-property] [seed]
cd "$(dirname "$0")/.."
runs=${1:-3000}; seed=${2:-20261002}
BIN=sim/target/release/simcheck
export VERIF_ROOT="$(pwd)"
fail=0
for p in C01 C02 C03 C04 C05 C06 C07 C08 C09 C11 C12 C13 C15 C16 C17 C18 C19 C20; do
  a=$($BIN selftest-log $p $runs --seed $seed --threads 1 | grep DIGEST)
  b=$($BIN selftest-log $p $runs --seed $seed --threads 16 | grep DIGEST)
  c=$($BIN selftest-log $p $runs --seed $seed --threads 7 | grep DIGEST)
  if [ "$a" == "$b" ] && [ "$b" == "$c" ] && [ -n "$a" ]; then echo "ok   $a"; else echo "DIFF $p: [$a] [$b] [$c]"; fail=1; fi
done
exit $fail
