#!/bin/bash
# Confirms a seeded change in its scratch worktree (never in /repo): with the change the repository's own
# suite is green and the demonstration fails; without it the demonstration passes.
# usage: tools/verify_seeded.sh <worktree> <demo-filter>     e.g. /tmp/agents/C04 demo_c04
wt=$1; filter=$2
cd "$wt" || exit 2
export CARGO_NET_OFFLINE=true
[ -s patch.diff ] || { echo "no patch.diff in $wt"; exit 2; }
# make sure the patch is applied
git apply --check -R patch.diff 2>/dev/null || git apply patch.diff || { echo "patch does not apply"; exit 2; }
echo "== with change: suite (demo skipped)"
cargo test --offline -- --skip prop_op_reordering_converges --skip "$filter" 2>&1 | grep -E "^test result|FAILED|panicked" | head -8
echo "== with change: demo"
cargo test --offline --test test "$filter" 2>&1 | grep -E "^test result|^test .*(ok|FAILED)$" | head -8
git apply -R patch.diff
echo "== without change: demo"
cargo test --offline --test test "$filter" 2>&1 | grep -E "^test result|^test .*(ok|FAILED)$" | head -8
git apply patch.diff
