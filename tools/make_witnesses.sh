#!/bin/bash
# Development tool (not a registered check): regenerates /verif/known/<finding>-<property>.json, the
# witness replays of the recorded findings, by searching runs attributed to each finding and minimising.
# usage: tools/make_witnesses.sh [properties...]
cd "$(dirname "$0")/.."
BIN=sim/target/release/simcheck
ALL=F1,F2,F3,F4,F5,F6,F7,F10,F11
props=${@:-C01 C02 C03 C05 C07 C08 C09 C16 C17 C18 C19 C20}
for p in $props; do
  fs=$($BIN check $p --runs 60000 --assume-open $ALL 2>/dev/null | grep "^$p:" | grep -o '{[^}]*}' | tr -d '{}" ' | tr ',' '\n' | cut -d: -f1 | sort -u)
  for f in $fs; do
    $BIN witness $p $f --runs 120000 --all $ALL
  done
done
