#!/bin/bash
# Refresh /verif/baseline/src from /repo's HEAD commit (never from the working tree).
# The baseline copy is used for attribution of failing runs to recorded findings only (DESIGN §4).
set -e
cd "$(dirname "$0")/.."
rm -rf baseline/src && mkdir -p baseline/src
git -C /repo archive HEAD src | tar -x -C baseline
git -C /repo rev-parse HEAD > baseline/REPO_COMMIT
echo "baseline synced to $(cat baseline/REPO_COMMIT)"
