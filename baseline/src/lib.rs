//! A pure-Rust library of thoroughly-tested, serializable CRDT's.
//!
//! [Conflict-free Replicated Data Types][crdt] (CRDTs) are data structures
//! which can be replicated across multiple networked nodes, and whose
//! properties allow for deterministic, local resolution of
//! possible inconsistencies which might result from concurrent
//! operations.
//!
//! [crdt]: https://en.wikipedia.org/wiki/Conflict-free_replicated_data_type
#![crate_type = "lib"]
#![deny(missing_docs)]
#![deny(unreachable_pub)]

mod traits;
pub use crate::traits::{Actor, CmRDT, CvRDT, ResetRemove};

/// This module contains a Last-Write-Wins Register.
pub mod lwwreg;

/// This module contains a Multi-Value Register.
pub mod mvreg;

/// This module contains a Merkle-Dag Register.
#[cfg(feature = "merkle")]
pub mod merkle_reg;

/// This module contains the Vector Clock
pub mod vclock;

/// This module contains the Dot (Actor + Sequence Number)
pub mod dot;

/// This module contains a Max Register.
#[cfg(feature = "num")]
pub mod maxreg;

/// This module contains a Min Register
pub mod minreg;

/// This module contains a dense Identifier.
#[cfg(feature = "num")]
pub mod identifier;

/// This module contains an Observed-Remove Set With Out Tombstones.
pub mod orswot;

/// This module contains a Grow-only Counter.
#[cfg(feature = "num")]
pub mod gcounter;

/// This module contains a Grow-only Set.
pub mod gset;

/// This module contains a Grow-only List.
#[cfg(feature = "num")]
pub mod glist;

/// This module contains a Positive-Negative Counter.
#[cfg(feature = "num")]
pub mod pncounter;

/// This module contains a Map with Reset-Remove and Observed-Remove semantics.
pub mod map;

/// This module contains context for editing a CRDT.
pub mod ctx;

/// This module contains a Sequence.
#[cfg(feature = "num")]
pub mod list;

mod serde_helper;

#[cfg(feature = "num")]
pub use {
    gcounter::GCounter, glist::GList, identifier::Identifier, list::List, maxreg::MaxReg,
    minreg::MinReg, pncounter::PNCounter,
};

// /// Version Vector with Exceptions
// pub mod vvwe;

/// Top-level re-exports for CRDT structures.
pub use crate::{
    dot::Dot, dot::DotRange, dot::OrdDot, gset::GSet, lwwreg::LWWReg, map::Map, mvreg::MVReg,
    orswot::Orswot, vclock::VClock,
};

/// A re-export of the quickcheck crate for external property tests
#[cfg(feature = "quickcheck")]
pub use quickcheck;
