//! # List
//!
//! The List CRDT is an efficient structure for dealing with ordered sequences.
//! It provides an efficient view of the stored sequence with fast index,
//! insertion and deletion.
//!
//! List is based on the LSEQ[1] and LOGOOT[2] family of CRDT's. The major
//! differentiator in this family of CRDT's is in how we allocate identifiers
//! to elements in the sequence.
//!
//! LSEQ/LOGOOT views the sequence as the nodes of an ordered, exponential
//! tree. The element identifier becomes the path through the exponential
//! tree to reach the element.
//!
//! LSEQ differs from Logoot in that it adds the concept of randomized
//! boundary+/- allocation strategy to prevent the tree from growing too
//! deep too quickly.
//!
//! In contrast with the LSEQ/LOGOOT approach, we use rational numbers as
//! identifiers. Where LSEQ/LOGOOT constrain themselves to the interval (0,1),
//! we expand to the entire rational number line. This removes some edge
//! cases (literally) from the allocation logic since we don't have to worry
//! about bunching up our identifiers near the edges of the interval.

//! In addition, we remove the randomization and boundary+/- allocation logic
//! introduced by LSEQ, resorting instead to choosing the midpoint between
//! adjacent identifiers when inserting.
//!
//! List is a CmRDT, to guarantee convergence it must see every operation. It also requires that
//! they are delivered in a _causal_ order. Every deletion _must_ be applied _after_ it's
//! corresponding insertion. To guarantee this property, use a causality barrier.
//!
//! [1] B. Nédelec, P. Molli, A. Mostefaoui, and E. Desmontils,
//! “LSEQ: an adaptive structure for sequences in distributed collaborative editing,”
//! in Proceedings of the 2013 ACM symposium on Document engineering - DocEng ’13,
//! Florence, Italy, 2013, p. 37, doi: 10.1145/2494266.2494278.
//!
//! [2] S. Weiss, P. Urso, and P. Molli,
//! “Logoot: A Scalable Optimistic Replication Algorithm for Collaborative Editing on P2P Networks,”
//! in 2009 29th IEEE International Conference on Distributed Computing Systems,
//! Montreal, Quebec, Canada, Jun. 2009, pp. 404–412, doi: 10.1109/ICDCS.2009.75.

use core::fmt;
use core::iter::FromIterator;
use std::collections::BTreeMap;

use serde::{Deserialize, Serialize};

use crate::{
    serde_helper::{self, SerDe},
    CmRDT, Dot, Identifier, OrdDot, VClock,
};

/// As described in the module documentation:
///
/// A List is a CRDT for storing sequences of data (Strings, ordered lists).
/// It provides an efficient view of the stored sequence, with fast index, insertion and deletion
/// operations.
#[derive(Debug, Clone, Serialize, Deserialize, PartialEq, Eq, Hash)]
pub struct List<T: SerDe, A: Ord> {
    #[serde(with = "serde_helper::btreemap_as_vec")]
    seq: BTreeMap<Identifier<OrdDot<A>>, T>,
    clock: VClock<A>,
}

/// Operations that can be performed on a List
#[derive(Debug, Clone, PartialEq, Eq, Serialize, Deserialize)]
pub enum Op<T, A: Ord> {
    /// Insert an element
    Insert {
        /// The Identifier to insert at
        id: Identifier<OrdDot<A>>,
        /// Element to insert
        val: T,
    },
    /// Delete an element
    Delete {
        /// The Identifier of the insertion we're removing
        id: Identifier<OrdDot<A>>,
        /// id of site that issued delete
        dot: Dot<A>,
    },
}

impl<T, A: Ord + Clone + Eq> Op<T, A> {
    /// Returns the Identifier this operation is concerning.
    pub fn id(&self) -> &Identifier<OrdDot<A>> {
        match self {
            Op::Insert { id, .. } | Op::Delete { id, .. } => id,
        }
    }

    /// Return the Dot originating the operation.
    pub fn dot(&self) -> Dot<A> {
        match self {
            Op::Insert { id, .. } => id.value().clone().into(),
            Op::Delete { dot, .. } => dot.clone(),
        }
    }
}

impl<T: SerDe, A: Ord> Default for List<T, A> {
    fn default() -> Self {
        Self {
            seq: Default::default(),
            clock: Default::default(),
        }
    }
}

impl<T: SerDe, A: Ord + Clone> List<T, A> {
    /// Create an empty List
    pub fn new() -> Self {
        Self::default()
    }

    /// Generate an op to insert the given element at the given index.
    /// If `ix` is greater than the length of the List then it is appended to the end.
    pub fn insert_index(&self, mut ix: usize, val: T, actor: A) -> Op<T, A> {
        ix = ix.min(self.seq.len());
        // TODO: replace this logic with BTreeMap::range()
        let (prev, next) = match ix.checked_sub(1) {
            Some(indices_to_drop) => {
                let mut indices = self.seq.keys().skip(indices_to_drop);
                (indices.next(), indices.next())
            }
            None => {
                // Inserting at the front of the list
                let mut indices = self.seq.keys();
                (None, indices.next())
            }
        };

        let dot = self.clock.inc(actor);
        let id = Identifier::between(prev, next, dot.into());
        Op::Insert { id, val }
    }

    /// Create an op to insert an element at the end of the sequence.
    pub fn append(&self, c: T, actor: A) -> Op<T, A> {
        let ix = self.seq.len();
        self.insert_index(ix, c, actor)
    }

    /// Create an op to delete the element at the given index.
    ///
    /// Returns None if `ix` is out of bounds, i.e. `ix > self.len()`.
    pub fn delete_index(&self, ix: usize, actor: A) -> Option<Op<T, A>> {
        self.seq.keys().nth(ix).cloned().map(|id| {
            let dot = self.clock.inc(actor);
            Op::Delete { id, dot }
        })
    }

    /// Get the length of the List.
    pub fn len(&self) -> usize {
        self.seq.len()
    }

    /// Check if the List is empty.
    pub fn is_empty(&self) -> bool {
        self.seq.is_empty()
    }

    /// Read the List into a container of your choice
    ///
    /// ```rust
    /// use crdts::{List, CmRDT};
    ///
    /// let mut list = List::new();
    /// list.apply(list.append('a', 'A'));
    /// list.apply(list.append('b', 'A'));
    /// list.apply(list.append('c', 'A'));
    /// assert_eq!(list.read::<String>(), "abc");
    /// ```
    pub fn read<'a, C: FromIterator<&'a T>>(&'a self) -> C {
        self.seq.values().collect()
    }

    /// Read the List into a container of your choice, consuming it.
    ///
    /// ```rust
    /// use crdts::{List, CmRDT};
    ///
    /// let mut list = List::new();
    /// list.apply(list.append(1, 'A'));
    /// list.apply(list.append(2, 'A'));
    /// list.apply(list.append(3, 'A'));
    /// assert_eq!(list.read_into::<Vec<_>>(), vec![1, 2, 3]);
    /// ```
    pub fn read_into<C: FromIterator<T>>(self) -> C {
        self.seq.into_values().collect()
    }

    /// Get the elements represented by the List.
    pub fn iter(&self) -> impl Iterator<Item = &T> {
        self.seq.values()
    }

    /// Get each elements identifier and value from the List.
    pub fn iter_entries(&self) -> impl Iterator<Item = (&Identifier<OrdDot<A>>, &T)> {
        self.seq.iter()
    }

    /// Get an element at a position in the sequence represented by the List.
    pub fn position(&self, ix: usize) -> Option<&T> {
        self.iter().nth(ix)
    }

    /// Find an identifer by an index.
    pub fn position_entry(&self, id: &Identifier<OrdDot<A>>) -> Option<usize> {
        self.iter_entries()
            .enumerate()
            .find_map(|(ix, (ident, _))| if ident == id { Some(ix) } else { None })
    }

    /// Finds an element by its Identifier.
    pub fn get(&self, id: &Identifier<OrdDot<A>>) -> Option<&T> {
        self.seq.get(id)
    }

    /// Get first element of the sequence represented by the List.
    pub fn first(&self) -> Option<&T> {
        self.first_entry().map(|(_, val)| val)
    }

    /// Get the first Entry of the sequence represented by the List.
    pub fn first_entry(&self) -> Option<(&Identifier<OrdDot<A>>, &T)> {
        self.seq.iter().next()
    }

    /// Get last element of the sequence represented by the List.
    pub fn last(&self) -> Option<&T> {
        self.last_entry().map(|(_, val)| val)
    }

    /// Get the last Entry of the sequence represented by the List.
    pub fn last_entry(&self) -> Option<(&Identifier<OrdDot<A>>, &T)> {
        self.seq.iter().next_back()
    }

    /// Insert value with at the given identifier in the List
    fn insert(&mut self, id: Identifier<OrdDot<A>>, val: T) {
        // Inserts only have an impact if the identifier is not in the tree
        self.seq.entry(id).or_insert(val);
    }

    /// Remove the element with the given identifier from the List
    fn delete(&mut self, id: &Identifier<OrdDot<A>>) {
        // Deletes only have an effect if the identifier is already in the tree
        self.seq.remove(id);
    }
}

impl<T: SerDe, A: Ord + Clone + fmt::Debug> CmRDT for List<T, A> {
    type Op = Op<T, A>;
    type Validation = crate::DotRange<A>;

    fn validate_op(&self, op: &Self::Op) -> Result<(), Self::Validation> {
        self.clock.validate_op(&op.dot())
    }

    /// Apply an operation to an List instance.
    ///
    /// If the operation is an insert and the identifier is **already** present in the List instance
    /// the result is a no-op
    ///
    /// If the operation is a delete and the identifier is **not** present in the List instance the
    /// result is a no-op
    fn apply(&mut self, op: Self::Op) {
        let op_dot = op.dot();

        if op_dot.counter <= self.clock.get(&op_dot.actor) {
            return;
        }

        self.clock.apply(op_dot);
        match op {
            Op::Insert { id, val } => self.insert(id, val),
            Op::Delete { id, .. } => self.delete(&id),
        }
    }
}

impl<T: SerDe, A: Ord> IntoIterator for List<T, A> {
    type Item = T;

    type IntoIter = std::collections::btree_map::IntoValues<Identifier<OrdDot<A>>, T>;

    fn into_iter(self) -> Self::IntoIter {
        self.seq.into_values()
    }
}
