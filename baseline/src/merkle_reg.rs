use core::convert::Infallible;
use core::fmt;
use std::collections::{BTreeMap, BTreeSet};

use serde::{Deserialize, Serialize};
use tiny_keccak::{Hasher, Sha3};

use crate::serde_helper::{self, SerDe};
use crate::traits::{CmRDT, CvRDT};

/// The hash of a node
pub type Hash = [u8; 32];

/// A node in the Merkle DAG
#[derive(Debug, Clone, PartialEq, Eq, Hash, PartialOrd, Ord, Serialize, Deserialize)]
pub struct Node<T> {
    /// The child nodes, addressed by their hash.
    pub children: BTreeSet<Hash>,
    /// The value stored at this node.
    pub value: T,
}

impl<T: Sha3Hash> Node<T> {
    /// Compute the hash name of this node.
    ///
    /// hash = sha3_256(child1 <> child2 <> .. <> childN <> value)
    ///
    /// Where children are ordered lexigraphically.
    pub fn hash(&self) -> Hash {
        let mut sha3 = Sha3::v256();

        self.children.iter().for_each(|c| sha3.update(c));
        self.value.hash(&mut sha3);

        let mut hash = [0u8; 32];
        sha3.finalize(&mut hash);
        hash
    }
}

/// The contents of a MerkleReg.
///
/// Usually this is retrieved through a call to `MerkleReg::read`
pub struct Content<'a, T> {
    nodes: BTreeMap<Hash, &'a Node<T>>,
}

impl<'a, T> Content<'a, T> {
    /// Checks if the contents is empty
    pub fn is_empty(&self) -> bool {
        self.nodes.is_empty()
    }

    /// Iterate over the content values
    pub fn values(&self) -> impl Iterator<Item = &T> {
        self.nodes.values().map(|n| &n.value)
    }

    /// Iterate over the Merkle DAG nodes holding the content values.
    pub fn nodes(&self) -> impl Iterator<Item = &Node<T>> {
        self.nodes.values().copied()
    }

    /// Iterate over the hashes of the content values.
    pub fn hashes(&self) -> BTreeSet<Hash> {
        self.nodes.keys().copied().collect()
    }

    /// Iterate over the hashes of the content values.
    pub fn hashes_and_nodes(&self) -> impl Iterator<Item = (Hash, &Node<T>)> {
        self.nodes.iter().map(|(hash, node)| (*hash, *node))
    }
}

/// The MerkleReg is a Register CRDT that uses the Merkle DAG
/// structure to track the current value(s) held by this register.
/// The roots of the Merkle DAG are the current concurrent values.
#[derive(Debug, Clone, PartialEq, Eq, Hash, PartialOrd, Ord, Serialize, Deserialize)]
pub struct MerkleReg<T: SerDe> {
    roots: BTreeSet<Hash>,
    #[serde(with = "serde_helper::btreemap_as_vec")]
    dag: BTreeMap<Hash, Node<T>>,
    #[serde(with = "serde_helper::btreemap_as_vec")]
    orphans: BTreeMap<Hash, Node<T>>,
}

impl<T: SerDe> Default for MerkleReg<T> {
    fn default() -> Self {
        Self {
            roots: Default::default(),
            dag: Default::default(),
            orphans: Default::default(),
        }
    }
}

impl<T: SerDe> MerkleReg<T> {
    /// Return a new instance of the MerkleReg
    pub fn new() -> Self {
        Default::default()
    }

    /// Read the current values held by the register
    pub fn read(&self) -> Content<T> {
        Content {
            nodes: self
                .roots
                .iter()
                .copied()
                .filter_map(|root| self.dag.get(&root).map(|node| (root, node)))
                .collect(),
        }
    }

    /// Write the given value on top of the given children.
    pub fn write(&self, value: T, children: BTreeSet<Hash>) -> Node<T> {
        Node { children, value }
    }

    /// Retrieve a node in the Merkle DAG by it's hash.
    ///
    /// Traverse the history of the register by pairing this method
    /// with the children of the nodes retrieved in Content::nodes().
    pub fn node(&self, hash: Hash) -> Option<&Node<T>> {
        self.dag.get(&hash).or_else(|| self.orphans.get(&hash))
    }

    /// Iterator over all the nodes in the Merkle DAG.
    pub fn all_nodes(&self) -> impl Iterator<Item = &Node<T>> {
        self.dag.values()
    }

    /// Returns the children of a node
    pub fn children(&self, hash: Hash) -> Content<T> {
        let nodes = self.dag.get(&hash).map(|node| {
            node.children
                .iter()
                .copied()
                .filter_map(|child| self.dag.get(&child).map(|node| (child, node)))
                .collect()
        });

        Content {
            nodes: nodes.unwrap_or_default(),
        }
    }

    /// Returns the parents of a node
    pub fn parents(&self, hash: Hash) -> Content<T> {
        let parents = self
            .dag
            .iter()
            .filter_map(|(h, node)| {
                if node.children.contains(&hash) {
                    Some((*h, node))
                } else {
                    None
                }
            })
            .collect();

        Content { nodes: parents }
    }

    /// Returns the number of nodes who are visible, i.e. their children have been seen.
    pub fn num_nodes(&self) -> usize {
        self.dag.len()
    }

    /// Returns the number of nodes who are not visible due to missing children.
    pub fn num_orphans(&self) -> usize {
        self.orphans.len()
    }

    fn all_hashes_seen(&self, hashes: &BTreeSet<Hash>) -> bool {
        hashes.iter().all(|h| self.dag.contains_key(h))
    }
}

/// Validation errors that may occur when applying or merging MerkleReg
#[derive(Debug, Clone, PartialEq, Eq)]
pub enum ValidationError {
    /// The Op is attempting to insert a node with a child we
    /// haven't seen yet.
    MissingChild(Hash),
}

impl fmt::Display for ValidationError {
    fn fmt(&self, f: &mut fmt::Formatter<'_>) -> fmt::Result {
        fmt::Debug::fmt(self, f)
    }
}

impl std::error::Error for ValidationError {}

impl<T: Sha3Hash + SerDe> CmRDT for MerkleReg<T> {
    type Op = Node<T>;
    type Validation = ValidationError;

    fn validate_op(&self, op: &Self::Op) -> Result<(), Self::Validation> {
        for child in op.children.iter() {
            if !self.dag.contains_key(child) {
                return Err(ValidationError::MissingChild(*child));
            }
        }
        Ok(())
    }

    fn apply(&mut self, node: Self::Op) {
        let node_hash = node.hash();
        if self.dag.contains_key(&node_hash) || self.orphans.contains_key(&node_hash) {
            return;
        }

        if self.all_hashes_seen(&node.children) {
            // Any children who happen to be roots will no longer be roots
            // after this node is inserted.
            for child in node.children.iter() {
                self.roots.remove(child);
            }

            // Since we have never seen this node before, it's guaranteed to be a root.
            self.roots.insert(node_hash);

            // It is now safe to insert this node into the DAG since we've seen its children.
            self.dag.insert(node_hash, node);

            // Now check if inserting this node resolves any orphans nodes.
            // TODO: replace this logic with BTreeMap::drain_filter once it's stable.
            let hashes_that_are_now_ready_to_apply = self
                .orphans
                .iter()
                .filter(|(_, node)| self.all_hashes_seen(&node.children))
                .map(|(hash, _)| hash)
                .copied()
                .collect::<Vec<_>>();

            let mut nodes_to_apply = Vec::new();
            for hash in hashes_that_are_now_ready_to_apply {
                // Remove the previously orphaned nodes that are now
                // ready to apply before we recurse, else we risk an
                // exponential growth in memory.
                if let Some(node) = self.orphans.remove(&hash) {
                    nodes_to_apply.push(node);
                }
            }

            for node in nodes_to_apply {
                self.apply(node);
            }
        } else {
            self.orphans.insert(node_hash, node);
        }
    }
}

impl<T: Sha3Hash + SerDe> CvRDT for MerkleReg<T> {
    type Validation = Infallible;

    fn validate_merge(&self, _: &Self) -> Result<(), Self::Validation> {
        Ok(())
    }

    fn merge(&mut self, other: Self) {
        let MerkleReg { dag, orphans, .. } = other;
        for (_, node) in dag {
            self.apply(node);
        }
        for (_, node) in orphans {
            self.apply(node);
        }
    }
}

/// Values in the MerkleReg must be hasheable
/// with tiny_keccak::Sha3.
pub trait Sha3Hash {
    /// Update the hasher with self's data
    fn hash(&self, hasher: &mut Sha3);
}

// Blanket implementation for anything that can be converted to &[u8]
impl<T: AsRef<[u8]>> Sha3Hash for T {
    fn hash(&self, hasher: &mut Sha3) {
        hasher.update(self.as_ref());
    }
}

#[cfg(feature = "quickcheck")]
use quickcheck::{Arbitrary, Gen};

#[cfg(feature = "quickcheck")]
impl<T: Arbitrary + Sha3Hash + SerDe> Arbitrary for MerkleReg<T> {
    fn arbitrary(g: &mut Gen) -> Self {
        let mut reg = MerkleReg::new();
        let mut nodes: Vec<Node<_>> = Vec::new();

        let n_nodes = u8::arbitrary(g) % 12;
        for _ in 0..n_nodes {
            let value = T::arbitrary(g);
            let mut children = BTreeSet::new();
            if !nodes.is_empty() {
                let n_children = u8::arbitrary(g) % 12;
                for _ in 0..n_children {
                    children.insert(nodes[usize::arbitrary(g) % nodes.len()].hash());
                }
            }
            let op = reg.write(value, children);
            nodes.push(op.clone());
            reg.apply(op)
        }

        reg
    }
}
