use crate::traits::{CmRDT, CvRDT};
use serde::{Deserialize, Serialize};
use std::convert::Infallible;

/// `MinReg` Holds a monotonically decreasing value that implements the Ord trait. For use of floating-point values,
/// you must create a wrapper (or use a crate like `float-ord`).
/// For modelling as a `CvRDT`:
/// ```rust
/// use crdts::{CvRDT,MinReg};
/// let mut a = MinReg{ val: 3 };
/// let b = MinReg{ val: 2 };
///
/// a.merge(b);
/// assert_eq!(a.val, 2);
/// ```
/// and `CmRDT`:
/// ```rust
/// use crdts::{CmRDT, MinReg};
/// let mut a = MinReg{ val: 3 };
/// let b = 2;
/// a.apply(b);
/// assert_eq!(a.val, 2);
/// ```
#[derive(Debug, Clone, PartialEq, Eq, Hash, Serialize, Deserialize)]
pub struct MinReg<V> {
    /// `val` is the opaque element contained within this CRDT
    /// Because `val` is monotonic, it also serves as a marker and preserves causality
    pub val: V,
}

impl<V: Default> Default for MinReg<V> {
    fn default() -> Self {
        Self { val: V::default() }
    }
}

impl<V: Ord> CvRDT for MinReg<V> {
    /// Validates whether a merge is safe to perfom (it always is)
    type Validation = Infallible;

    /// Always returns Ok(()) since a validation error is Infallible
    fn validate_merge(&self, _other: &Self) -> Result<(), Self::Validation> {
        Ok(())
    }

    /// Combines two `MinReg` instances according to the value that is smallest
    fn merge(&mut self, MinReg { val }: Self) {
        self.update(val)
    }
}

impl<V: Ord> CmRDT for MinReg<V> {
    // MinRegs's are small enough that we can replicate
    // the entire state as an Op
    type Op = V;

    // No operation is invalid so we can safely return `Ok(())`
    type Validation = Infallible;

    /// Just return Ok(())
    fn validate_op(&self, _op: &Self::Op) -> Result<(), Self::Validation> {
        Ok(())
    }

    /// Applies an operation to a MinReg CmRDT
    fn apply(&mut self, op: Self::Op) {
        // Since type Op = V, we need to wrap MinReg around op.
        // If more fields are added to the MinReg struct, change Op to Self
        self.update(op)
    }
}

impl<V: Ord> MinReg<V> {
    /// Constructs a MinReg initialized with the specified value `val`.
    pub fn new(&mut self, val: V) -> Self {
        MinReg { val }
    }

    /// Updates the value of the MinReg. `val` is always monotonically decreasing.
    pub fn update(&mut self, val: V) {
        if val < self.val {
            self.val = val
        }
    }

    /// Generates a write op (i.e: a val: V)
    pub fn write(&self, val: V) -> <MinReg<V> as CmRDT>::Op {
        val
    }

    /// Reads the current value of the registers:
    pub fn read(&self) -> &V {
        &self.val
    }
}

#[cfg(test)]
mod test {
    use super::*;

    #[test]
    /// TODO: I feel like the default should be Inf??
    fn test_default() {
        let reg = MinReg::default();
        assert_eq!(reg, MinReg { val: 0 });
    }

    #[test]
    fn test_update() {
        // Create a `MinReg` with initial value of 1
        let mut reg = MinReg { val: 1 };
        reg.update(0);

        // normal update: the value of the register decreases to some other value
        // EXPECTED: success, the val is updated since the current value of the register is greater than 0
        assert_eq!(reg, MinReg { val: 0 });

        // stale update: the value of the register is less than the incoming one
        // EXPECTED: success, the val is not updated since the current value is already less than 1
        reg.update(1);
        assert_eq!(reg, MinReg { val: 0 });

        // Idempotency: Applying the same update is a no-op
        // EXPECTED: success, the val is still equal to 0 because 0 ≮ 0
        reg.update(0);
        assert_eq!(reg, MinReg { val: 0 });

        // Test validate_op and validate_merge returns Ok(())
        // EXPECTED: success, the validation callers only return Ok(())
        let op = reg.write(-1);
        assert_eq!(reg.validate_op(&op), Ok(()));

        let other = MinReg { val: -2 };
        assert_eq!(reg.validate_merge(&other), Ok(()));
    }
    #[test]
    fn test_read() {
        // Create a `MinReg` with initial value of 1
        let reg = MinReg { val: 1 };
        let val = reg.read();
        assert_eq!(*val, reg.val);
    }

    #[test]
    fn test_write() {
        // Create a `MinReg` with initial value of 5
        let a = MinReg { val: 5 };

        // Create a `MinReg` with initial value of 6
        let mut b = MinReg { val: 6 };

        // Create a write op:
        let op = b.write(a.val);

        // Apply the op:
        b.apply(op);

        assert_eq!(b.val, 5);
    }
}
