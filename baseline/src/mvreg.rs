use core::cmp::Ordering;
use core::convert::Infallible;
use core::fmt::{self, Debug, Display};
use core::mem;

use serde::{Deserialize, Serialize};

use crate::ctx::{AddCtx, ReadCtx};
use crate::{CmRDT, CvRDT, ResetRemove, VClock};

/// MVReg (Multi-Value Register)
/// On concurrent writes, we will keep all values for which
/// we can't establish a causal history.
///
/// ```rust
/// use crdts::{CmRDT, MVReg, Dot, VClock};
/// let mut r1 = MVReg::new();
/// let mut r2 = r1.clone();
/// let r1_read_ctx = r1.read();
/// let r2_read_ctx = r2.read();
///
/// r1.apply(r1.write("bob", r1_read_ctx.derive_add_ctx(123)));
///
/// let op = r2.write("alice", r2_read_ctx.derive_add_ctx(111));
/// r2.apply(op.clone());
///
/// r1.apply(op); // we replicate op to r1
///
/// // Since "bob" and "alice" were added concurrently, we see both on read
/// assert_eq!(r1.read().val, vec!["bob", "alice"]);
/// ```
#[derive(Debug, Clone, Serialize, Deserialize)]
#[serde(transparent)]
pub struct MVReg<V, A: Ord> {
    vals: Vec<(VClock<A>, V)>,
}

/// Defines the set of operations over the MVReg
#[derive(Debug, Clone, PartialEq, Eq, Serialize, Deserialize)]
pub enum Op<V, A: Ord> {
    /// Put a value
    Put {
        /// context of the operation
        clock: VClock<A>,
        /// the value to put
        val: V,
    },
}

impl<V: Display, A: Ord + Display> Display for MVReg<V, A> {
    fn fmt(&self, f: &mut fmt::Formatter) -> fmt::Result {
        write!(f, "|")?;
        for (i, (ctx, val)) in self.vals.iter().enumerate() {
            if i > 0 {
                write!(f, ", ")?;
            }
            write!(f, "{}@{}", val, ctx)?;
        }
        write!(f, "|")
    }
}

impl<V: PartialEq, A: Ord> PartialEq for MVReg<V, A> {
    fn eq(&self, other: &Self) -> bool {
        for dot in self.vals.iter() {
            let num_found = other.vals.iter().filter(|d| d == &dot).count();

            if num_found == 0 {
                return false;
            }
            // sanity check
            assert_eq!(num_found, 1);
        }
        for dot in other.vals.iter() {
            let num_found = self.vals.iter().filter(|d| d == &dot).count();

            if num_found == 0 {
                return false;
            }
            // sanity check
            assert_eq!(num_found, 1);
        }
        true
    }
}

impl<V: Eq, A: Ord> Eq for MVReg<V, A> {}

impl<V, A: Ord> ResetRemove<A> for MVReg<V, A> {
    fn reset_remove(&mut self, clock: &VClock<A>) {
        self.vals = mem::take(&mut self.vals)
            .into_iter()
            .filter_map(|(mut val_clock, val)| {
                val_clock.reset_remove(clock);
                if val_clock.is_empty() {
                    None // remove this value from the register
                } else {
                    Some((val_clock, val))
                }
            })
            .collect()
    }
}

impl<V, A: Ord> Default for MVReg<V, A> {
    fn default() -> Self {
        Self { vals: Vec::new() }
    }
}

impl<V, A: Ord> CvRDT for MVReg<V, A> {
    type Validation = Infallible;

    fn validate_merge(&self, _other: &Self) -> Result<(), Self::Validation> {
        Ok(())
    }

    fn merge(&mut self, other: Self) {
        self.vals = mem::take(&mut self.vals)
            .into_iter()
            .filter(|(clock, _)| other.vals.iter().filter(|(c, _)| clock < c).count() == 0)
            .collect();

        self.vals.extend(
            other
                .vals
                .into_iter()
                .filter(|(clock, _)| self.vals.iter().filter(|(c, _)| clock < c).count() == 0)
                .filter(|(clock, _)| self.vals.iter().all(|(c, _)| clock != c))
                .collect::<Vec<_>>(),
        );
    }
}

impl<V, A: Ord> CmRDT for MVReg<V, A> {
    type Op = Op<V, A>;
    type Validation = Infallible;

    fn validate_op(&self, _op: &Self::Op) -> Result<(), Self::Validation> {
        Ok(())
    }

    fn apply(&mut self, op: Self::Op) {
        match op {
            Op::Put { clock, val } => {
                if clock.is_empty() {
                    return;
                }
                // first filter out all values that are dominated by the Op clock
                self.vals.retain(|(val_clock, _)| {
                    matches!(
                        val_clock.partial_cmp(&clock),
                        None | Some(Ordering::Greater)
                    )
                });

                // TAI: in the case were the Op has a context that already was present,
                //      the above line would remove that value, the next lines would
                //      keep the val from the Op, so.. a malformed Op could break
                //      commutativity.

                // now check if we've already seen this op
                let mut should_add = true;
                for (existing_clock, _) in self.vals.iter() {
                    if existing_clock > &clock {
                        // we've found an entry that dominates this op
                        should_add = false;
                    }
                }

                if should_add {
                    self.vals.push((clock, val));
                }
            }
        }
    }
}

impl<V, A: Ord + Clone + Debug> MVReg<V, A> {
    /// Construct a new empty MVReg
    pub fn new() -> Self {
        Default::default()
    }

    /// Set the value of the register
    pub fn write(&self, val: V, ctx: AddCtx<A>) -> Op<V, A> {
        Op::Put {
            clock: ctx.clock,
            val,
        }
    }

    /// Consumes the register and returns the values
    pub fn read(&self) -> ReadCtx<Vec<V>, A>
    where
        V: Clone,
    {
        let clock = self.clock();
        let concurrent_vals = self.vals.iter().cloned().map(|(_, v)| v).collect();

        ReadCtx {
            add_clock: clock.clone(),
            rm_clock: clock,
            val: concurrent_vals,
        }
    }

    /// Retrieve the current read context
    pub fn read_ctx(&self) -> ReadCtx<(), A> {
        let clock = self.clock();
        ReadCtx {
            add_clock: clock.clone(),
            rm_clock: clock,
            val: (),
        }
    }

    /// A clock with latest versions of all actors operating on this register
    fn clock(&self) -> VClock<A> {
        self.vals
            .iter()
            .fold(VClock::new(), |mut accum_clock, (c, _)| {
                accum_clock.merge(c.clone());
                accum_clock
            })
    }
}
