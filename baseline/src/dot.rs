use std::cmp::{Ordering, PartialOrd};
use std::fmt;
use std::hash::{Hash, Hasher};

use serde::{Deserialize, Serialize};

/// Dot is a version marker for a single actor
#[derive(Clone, Serialize, Deserialize)]
pub struct Dot<A> {
    /// The actor identifier
    pub actor: A,
    /// The current version of this actor
    pub counter: u64,
}

impl<A> Dot<A> {
    /// Build a Dot from an actor and counter
    pub fn new(actor: A, counter: u64) -> Self {
        Self { actor, counter }
    }

    /// Increment this dot's counter
    pub fn apply_inc(&mut self) {
        self.counter += 1;
    }
}

impl<A: Clone> Dot<A> {
    /// Generate the successor of this dot
    pub fn inc(&self) -> Self {
        Self {
            actor: self.actor.clone(),
            counter: self.counter + 1,
        }
    }
}
impl<A: Copy> Copy for Dot<A> {}

impl<A: PartialEq> PartialEq for Dot<A> {
    fn eq(&self, other: &Self) -> bool {
        self.actor == other.actor && self.counter == other.counter
    }
}

impl<A: Eq> Eq for Dot<A> {}

impl<A: Hash> Hash for Dot<A> {
    fn hash<H: Hasher>(&self, state: &mut H) {
        self.actor.hash(state);
        self.counter.hash(state);
    }
}

impl<A: PartialOrd> PartialOrd for Dot<A> {
    fn partial_cmp(&self, other: &Self) -> Option<Ordering> {
        if self.actor == other.actor {
            self.counter.partial_cmp(&other.counter)
        } else {
            None
        }
    }
}

impl<A: fmt::Debug> fmt::Debug for Dot<A> {
    fn fmt(&self, f: &mut fmt::Formatter<'_>) -> fmt::Result {
        write!(f, "{:?}.{:?}", self.actor, self.counter)
    }
}

impl<A> From<(A, u64)> for Dot<A> {
    fn from(dot_material: (A, u64)) -> Self {
        let (actor, counter) = dot_material;
        Self { actor, counter }
    }
}

#[cfg(feature = "quickcheck")]
use quickcheck::{Arbitrary, Gen};

#[cfg(feature = "quickcheck")]
impl<A: Arbitrary + Clone> Arbitrary for Dot<A> {
    fn arbitrary(g: &mut Gen) -> Self {
        Dot {
            actor: A::arbitrary(g),
            counter: u64::arbitrary(g) % 50,
        }
    }

    fn shrink(&self) -> Box<dyn Iterator<Item = Self>> {
        let mut shrunk_dots = Vec::new();
        if self.counter > 0 {
            shrunk_dots.push(Self::new(self.actor.clone(), self.counter - 1));
        }
        Box::new(shrunk_dots.into_iter())
    }
}

/// An ordered dot.
/// dot's are first ordered by actor, dots from the same actor are ordered by counter.
#[derive(Debug, Clone, PartialEq, Eq, PartialOrd, Ord, Serialize, Deserialize, Hash)]
pub struct OrdDot<A: Ord> {
    /// The actor who created this dot.
    pub actor: A,
    /// The current counter of this actor.
    pub counter: u64,
}

impl<A: Ord> From<OrdDot<A>> for Dot<A> {
    fn from(OrdDot { actor, counter }: OrdDot<A>) -> Self {
        Self { actor, counter }
    }
}

impl<A: Ord> From<Dot<A>> for OrdDot<A> {
    fn from(Dot { actor, counter }: Dot<A>) -> Self {
        Self { actor, counter }
    }
}

/// A type for modeling a range of Dot's from one actor.
#[derive(Debug, PartialEq, Eq)]
pub struct DotRange<A> {
    /// The actor identifier
    pub actor: A,
    /// The counter range representing the dots:
    /// `Dot::new(actor, counter_range.start) .. Dot::new(actor, counter_range.end)`
    ///
    /// Start is inclusive, end is exclusive.
    pub counter_range: core::ops::Range<u64>,
}

impl<A: fmt::Debug + Ord> fmt::Display for OrdDot<A> {
    fn fmt(&self, f: &mut fmt::Formatter<'_>) -> fmt::Result {
        write!(f, "{:?}.{}", self.actor, self.counter)
    }
}

impl<A: fmt::Debug> fmt::Display for DotRange<A> {
    fn fmt(&self, f: &mut fmt::Formatter<'_>) -> fmt::Result {
        write!(
            f,
            "{:?}.({}..{})",
            self.actor, self.counter_range.start, self.counter_range.end
        )
    }
}

impl<A: fmt::Debug> std::error::Error for DotRange<A> {}

#[cfg(all(test, feature = "quickcheck"))]
mod test {
    use super::*;
    use quickcheck_macros::quickcheck;

    #[quickcheck]
    fn prop_inc_increments_only_the_counter(dot: Dot<u8>) -> bool {
        dot.inc() == Dot::new(dot.actor, dot.counter + 1)
    }

    #[quickcheck]
    fn prop_partial_order(a: Dot<u8>, b: Dot<u8>) -> bool {
        let cmp_ab = a.partial_cmp(&b);
        let cmp_ba = b.partial_cmp(&a);

        match (cmp_ab, cmp_ba) {
            (None, None) => a.actor != b.actor,
            (Some(Ordering::Less), Some(Ordering::Greater)) => {
                a.actor == b.actor && a.counter < b.counter
            }
            (Some(Ordering::Greater), Some(Ordering::Less)) => {
                a.actor == b.actor && a.counter > b.counter
            }
            (Some(Ordering::Equal), Some(Ordering::Equal)) => {
                a.actor == b.actor && a.counter == b.counter
            }
            _ => false,
        }
    }

    #[quickcheck]
    fn prop_ordered_dot_is_ordered_by_actor_first(dot_a: Dot<u8>, dot_b: Dot<u8>) -> bool {
        let ord_dot_a: OrdDot<_> = dot_a.into();
        let ord_dot_b: OrdDot<_> = dot_b.into();

        match ord_dot_a.actor.cmp(&ord_dot_b.actor) {
            Ordering::Less => ord_dot_a < ord_dot_b,
            Ordering::Greater => ord_dot_a > ord_dot_b,
            Ordering::Equal => {
                ord_dot_a.counter.cmp(&ord_dot_b.counter) == ord_dot_a.cmp(&ord_dot_b)
            }
        }
    }
}
