use num::bigint::BigInt;
use serde::{Deserialize, Serialize};
use std::fmt::Debug;

use crate::traits::{CmRDT, CvRDT, ResetRemove};
use crate::{Dot, GCounter, VClock};

/// `PNCounter` allows the counter to be both incremented and decremented
/// by representing the increments (P) and the decrements (N) in separate
/// internal G-Counters.
///
/// Merge is implemented by merging the internal P and N counters.
/// The value of the counter is P minus N.
///
/// # Examples
///
/// ```
/// use crdts::{PNCounter, CmRDT};
///
/// let mut a = PNCounter::new();
/// a.apply(a.inc("A"));
/// a.apply(a.inc("A"));
/// a.apply(a.dec("A"));
/// a.apply(a.inc("A"));
///
/// assert_eq!(a.read(), 2.into());
/// ```
#[derive(Debug, PartialEq, Eq, Clone, Hash, Serialize, Deserialize)]
pub struct PNCounter<A: Ord> {
    p: GCounter<A>,
    n: GCounter<A>,
}

/// The Direction of an Op.
#[derive(Debug, Clone, Serialize, Deserialize)]
pub enum Dir {
    /// signals that the op increments the counter
    Pos,
    /// signals that the op decrements the counter
    Neg,
}

/// An Op which is produced through from mutating the counter
/// Ship these ops to other replicas to have them sync up.
#[derive(Debug, Clone, Serialize, Deserialize)]
pub struct Op<A: Ord> {
    /// The witnessing dot for this op
    pub dot: Dot<A>,
    /// the direction to move the counter
    pub dir: Dir,
}

impl<A: Ord> Default for PNCounter<A> {
    fn default() -> Self {
        Self {
            p: Default::default(),
            n: Default::default(),
        }
    }
}

impl<A: Ord + Clone + Debug> CmRDT for PNCounter<A> {
    type Op = Op<A>;
    type Validation = <GCounter<A> as CmRDT>::Validation;

    fn validate_op(&self, op: &Self::Op) -> Result<(), Self::Validation> {
        match op {
            Op { dot, dir: Dir::Pos } => self.p.validate_op(dot),
            Op { dot, dir: Dir::Neg } => self.n.validate_op(dot),
        }
    }

    fn apply(&mut self, op: Self::Op) {
        match op {
            Op { dot, dir: Dir::Pos } => self.p.apply(dot),
            Op { dot, dir: Dir::Neg } => self.n.apply(dot),
        }
    }
}

impl<A: Ord + Clone + Debug> CvRDT for PNCounter<A> {
    type Validation = <GCounter<A> as CvRDT>::Validation;

    fn validate_merge(&self, other: &Self) -> Result<(), Self::Validation> {
        self.p.validate_merge(&other.p)?;
        self.n.validate_merge(&other.n)
    }

    fn merge(&mut self, other: Self) {
        self.p.merge(other.p);
        self.n.merge(other.n);
    }
}

impl<A: Ord> ResetRemove<A> for PNCounter<A> {
    fn reset_remove(&mut self, clock: &VClock<A>) {
        self.p.reset_remove(clock);
        self.n.reset_remove(clock);
    }
}

impl<A: Ord + Clone> PNCounter<A> {
    /// Produce a new `PNCounter`.
    pub fn new() -> Self {
        Default::default()
    }

    /// Generate an Op to increment the counter.
    pub fn inc(&self, actor: A) -> Op<A> {
        Op {
            dot: self.p.inc(actor),
            dir: Dir::Pos,
        }
    }

    /// Generate an Op to increment the counter.
    pub fn dec(&self, actor: A) -> Op<A> {
        Op {
            dot: self.n.inc(actor),
            dir: Dir::Neg,
        }
    }

    /// Generate an Op to increment the counter by a number of steps.
    pub fn inc_many(&self, actor: A, steps: u64) -> Op<A> {
        Op {
            dot: self.p.inc_many(actor, steps),
            dir: Dir::Pos,
        }
    }

    /// Generate an Op to decrement the counter by a number of steps.
    pub fn dec_many(&self, actor: A, steps: u64) -> Op<A> {
        Op {
            dot: self.n.inc_many(actor, steps),
            dir: Dir::Neg,
        }
    }

    /// Return the current value of this counter (P-N).
    pub fn read(&self) -> BigInt {
        let p: BigInt = self.p.read().into();
        let n: BigInt = self.n.read().into();
        p - n
    }
}

#[cfg(test)]
mod test {
    use super::*;

    #[test]
    fn test_basic_by_one() {
        let mut a = PNCounter::new();
        assert_eq!(a.read(), 0.into());

        a.apply(a.inc("A"));
        assert_eq!(a.read(), 1.into());

        a.apply(a.inc("A"));
        assert_eq!(a.read(), 2.into());

        a.apply(a.dec("A"));
        assert_eq!(a.read(), 1.into());

        a.apply(a.inc("A"));
        assert_eq!(a.read(), 2.into());
    }

    #[test]
    fn test_basic_by_many() {
        let mut a = PNCounter::new();
        assert_eq!(a.read(), 0.into());

        let steps = 3;

        a.apply(a.inc_many("A", steps));
        assert_eq!(a.read(), steps.into());

        a.apply(a.inc_many("A", steps));
        assert_eq!(a.read(), (2 * steps).into());

        a.apply(a.dec_many("A", steps));
        assert_eq!(a.read(), steps.into());

        a.apply(a.inc_many("A", 1));
        assert_eq!(a.read(), (1 + steps).into());
    }

    #[cfg(feature = "quickcheck")]
    mod prop_tests {
        use super::*;
        use std::collections::BTreeSet;

        use quickcheck_macros::quickcheck;

        const ACTOR_MAX: u8 = 11;

        #[quickcheck]
        fn prop_merge_converges(op_prims: Vec<(u8, u64, bool)>) -> bool {
            let ops: Vec<Op<u8>> = op_prims.into_iter().map(build_op).collect();

            let mut results = BTreeSet::new();

            // Permute the interleaving of operations should converge.
            // Largely taken directly from orswot
            for i in 2..ACTOR_MAX {
                let mut witnesses: Vec<PNCounter<u8>> = (0..i).map(|_| PNCounter::new()).collect();
                for op in ops.iter() {
                    let index = op.dot.actor as usize % i as usize;
                    let witness = &mut witnesses[index];
                    witness.apply(op.clone());
                }
                let mut merged = PNCounter::new();
                for witness in witnesses.iter() {
                    merged.merge(witness.clone());
                }

                results.insert(merged.read());
                if results.len() > 1 {
                    println!("opvec: {:?}", ops);
                    println!("results: {:?}", results);
                    println!("witnesses: {:?}", &witnesses);
                    println!("merged: {:?}", merged);
                }
            }
            results.len() == 1
        }

        fn build_op(prims: (u8, u64, bool)) -> Op<u8> {
            let (actor, counter, dir_choice) = prims;
            Op {
                dot: Dot { actor, counter },
                dir: if dir_choice { Dir::Pos } else { Dir::Neg },
            }
        }
    }
}
