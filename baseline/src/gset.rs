use core::convert::Infallible;
use std::collections::BTreeSet;

use serde::{Deserialize, Serialize};

use crate::{CmRDT, CvRDT};

/// A `GSet` is a grow-only set.
#[derive(Debug, Clone, PartialEq, Eq, Hash, Serialize, Deserialize)]
#[serde(transparent)]
pub struct GSet<T: Ord> {
    value: BTreeSet<T>,
}

impl<T: Ord> Default for GSet<T> {
    fn default() -> Self {
        GSet::new()
    }
}

impl<T: Ord> From<GSet<T>> for BTreeSet<T> {
    fn from(gset: GSet<T>) -> BTreeSet<T> {
        gset.value
    }
}

impl<T: Ord> CvRDT for GSet<T> {
    type Validation = Infallible;

    fn validate_merge(&self, _other: &Self) -> Result<(), Self::Validation> {
        Ok(())
    }

    /// Merges another `GSet` into this one.
    ///
    /// # Examples
    ///
    /// ```rust
    /// use crdts::{GSet, CvRDT, CmRDT};
    /// let (mut a, mut b) = (GSet::new(), GSet::new());
    /// a.insert(1);
    /// b.insert(2);
    /// a.merge(b);
    /// assert!(a.contains(&1));
    /// assert!(a.contains(&2));
    /// ```
    fn merge(&mut self, other: Self) {
        other.value.into_iter().for_each(|e| self.insert(e))
    }
}

impl<T: Ord> CmRDT for GSet<T> {
    type Op = T;
    type Validation = Infallible;

    fn validate_op(&self, _op: &Self::Op) -> Result<(), Self::Validation> {
        Ok(())
    }

    fn apply(&mut self, op: Self::Op) {
        self.insert(op);
    }
}

impl<T: Ord> GSet<T> {
    /// Instantiates an empty `GSet`.
    pub fn new() -> Self {
        Self {
            value: BTreeSet::new(),
        }
    }

    /// Inserts an element into this `GSet`.
    ///
    /// # Examples
    ///
    /// ```rust
    /// use crdts::GSet;
    /// let mut a = GSet::new();
    /// a.insert(1);
    /// assert!(a.contains(&1));
    /// ```
    pub fn insert(&mut self, element: T) {
        self.value.insert(element);
    }

    /// Returns `true` if the `GSet` contains the element.
    ///
    /// # Examples
    ///
    /// ```rust
    /// use crdts::GSet;
    /// let mut a = GSet::new();
    /// a.insert(1);
    /// assert!(a.contains(&1));
    /// ```
    pub fn contains(&self, element: &T) -> bool {
        self.value.contains(element)
    }

    /// Returns the `BTreeSet` for this `GSet`.
    ///
    /// # Examples
    ///
    /// ```rust
    /// use crdts::GSet;
    /// use std::collections::BTreeSet;
    /// let mut a = GSet::new();
    /// let mut b = BTreeSet::new();
    /// for i in 1..10 {
    ///     a.insert(i);
    ///     b.insert(i);
    /// }
    ///
    /// assert_eq!(a.read(), b);
    /// ```
    pub fn read(&self) -> BTreeSet<T>
    where
        T: Clone,
    {
        self.value.clone()
    }
}
