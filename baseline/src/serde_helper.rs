use serde::{de::DeserializeOwned, Serialize};

pub trait SerDe: Serialize + DeserializeOwned {}
impl<T: Serialize + DeserializeOwned> SerDe for T {}

pub(crate) mod btreemap_as_vec {
    use serde::{Deserialize, Deserializer, Serialize, Serializer};
    use std::collections::BTreeMap;

    pub(crate) fn serialize<S, K, V>(v: &BTreeMap<K, V>, s: S) -> Result<S::Ok, S::Error>
    where
        K: Serialize,
        V: Serialize,
        S: Serializer,
    {
        let vec = Vec::from_iter(v.iter());
        vec.serialize(s)
    }

    pub(crate) fn deserialize<'de, D, K, V>(deserializer: D) -> Result<BTreeMap<K, V>, D::Error>
    where
        D: Deserializer<'de>,
        K: Deserialize<'de> + Ord,
        V: Deserialize<'de>,
    {
        let vec: Vec<(K, V)> = Vec::deserialize(deserializer)?;
        Ok(vec.into_iter().collect())
    }
}
