//! This module contains a generic Vector Clock implementation.
//!
//! # Examples
//!
//! ```
//! use crdts::{Dot, VClock, CmRDT};
//!
//! let mut a = VClock::new();
//! let mut b = VClock::new();
//! a.apply(Dot::new("A", 2));
//! b.apply(Dot::new("A", 1));
//! assert!(a > b);
//! ```

use core::cmp::{self, Ordering};
use core::convert::Infallible;
use core::fmt::{self, Debug, Display};
use core::mem;
use std::collections::{btree_map, BTreeMap};

use serde::{Deserialize, Serialize};

use crate::{CmRDT, CvRDT, Dot, DotRange, ResetRemove};

/// A `VClock` is a standard vector clock.
/// It contains a set of "actors" and associated counters.
/// When a particular actor witnesses a mutation, their associated
/// counter in a `VClock` is incremented. `VClock` is typically used
/// as metadata for associated application data, rather than as the
/// container for application data. `VClock` just tracks causality.
/// It can tell you if something causally descends something else,
/// or if different replicas are "concurrent" (were mutated in
/// isolation, and need to be resolved externally).
#[derive(Debug, Clone, PartialEq, Eq, Hash, Serialize, Deserialize)]
#[serde(transparent)]
pub struct VClock<A: Ord> {
    /// dots is the mapping from actors to their associated counters
    pub dots: BTreeMap<A, u64>,
}

impl<A: Ord> Default for VClock<A> {
    fn default() -> Self {
        Self {
            dots: BTreeMap::new(),
        }
    }
}

impl<A: Ord> PartialOrd for VClock<A> {
    fn partial_cmp(&self, other: &VClock<A>) -> Option<Ordering> {
        // This algorithm is pretty naive, I think there's a way to
        // just track if the ordering changes as we iterate over the
        // active dots zipped by actor.
        // ie. it's None if the ordering changes from Less to Greator
        //     or vice-versa.

        if self == other {
            Some(Ordering::Equal)
        } else if other.dots.iter().all(|(w, c)| self.get(w) >= *c) {
            Some(Ordering::Greater)
        } else if self.dots.iter().all(|(w, c)| other.get(w) >= *c) {
            Some(Ordering::Less)
        } else {
            None
        }
    }
}

impl<A: Ord + Display> Display for VClock<A> {
    fn fmt(&self, f: &mut fmt::Formatter) -> fmt::Result {
        write!(f, "<")?;
        for (i, (actor, count)) in self.dots.iter().enumerate() {
            if i > 0 {
                write!(f, ", ")?;
            }
            write!(f, "{}:{}", actor, count)?;
        }
        write!(f, ">")
    }
}

impl<A: Ord> ResetRemove<A> for VClock<A> {
    /// Forget any actors that have smaller counts than the
    /// count in the given vclock
    fn reset_remove(&mut self, other: &Self) {
        for Dot { actor, counter } in other.iter() {
            if counter >= self.get(actor) {
                self.dots.remove(actor);
            }
        }
    }
}

impl<A: Ord + Clone + Debug> CmRDT for VClock<A> {
    type Op = Dot<A>;
    type Validation = DotRange<A>;

    fn validate_op(&self, dot: &Self::Op) -> Result<(), Self::Validation> {
        let next_counter = self.get(&dot.actor) + 1;
        if dot.counter > next_counter {
            Err(DotRange {
                actor: dot.actor.clone(),
                counter_range: next_counter..dot.counter,
            })
        } else {
            Ok(())
        }
    }

    /// Monotonically adds the given actor version to
    /// this VClock.
    ///
    /// # Examples
    /// ```
    /// use crdts::{VClock, Dot, CmRDT};
    /// let mut v = VClock::new();
    ///
    /// v.apply(Dot::new("A", 2));
    ///
    /// // now all dots applied to `v` from actor `A` where
    /// // the counter is not bigger than 2 are nops.
    /// v.apply(Dot::new("A", 0));
    /// assert_eq!(v.get(&"A"), 2);
    /// ```
    fn apply(&mut self, dot: Self::Op) {
        if self.get(&dot.actor) < dot.counter {
            self.dots.insert(dot.actor, dot.counter);
        }
    }
}

impl<A: Ord + Clone + Debug> CvRDT for VClock<A> {
    type Validation = Infallible;

    fn validate_merge(&self, _other: &Self) -> Result<(), Self::Validation> {
        Ok(())
    }

    fn merge(&mut self, other: Self) {
        for dot in other.into_iter() {
            self.apply(dot);
        }
    }
}

impl<A: Ord> VClock<A> {
    /// Returns a new `VClock` instance.
    pub fn new() -> Self {
        Default::default()
    }

    /// Returns a clone of self but with information that is older than given clock is
    /// forgotten
    pub fn clone_without(&self, base_clock: &VClock<A>) -> VClock<A>
    where
        A: Clone,
    {
        let mut cloned = self.clone();
        cloned.reset_remove(base_clock);
        cloned
    }

    /// Generate Op to increment an actor's counter.
    ///
    /// # Examples
    /// ```
    /// use crdts::{VClock, CmRDT};
    /// let mut a = VClock::new();
    ///
    /// // `a.inc()` does not mutate the vclock!
    /// let op = a.inc("A");
    /// assert_eq!(a, VClock::new());
    ///
    /// // we must apply the op to the VClock to have
    /// // its edit take effect.
    /// a.apply(op.clone());
    /// assert_eq!(a.get(&"A"), 1);
    ///
    /// // Op's can be replicated to another node and
    /// // applied to the local state there.
    /// let mut other_node = VClock::new();
    /// other_node.apply(op);
    /// assert_eq!(other_node.get(&"A"), 1);
    /// ```
    pub fn inc(&self, actor: A) -> Dot<A>
    where
        A: Clone,
    {
        self.dot(actor).inc()
    }

    /// Return the associated counter for this actor.
    /// All actors not in the vclock have an implied count of 0
    pub fn get(&self, actor: &A) -> u64 {
        self.dots.get(actor).cloned().unwrap_or(0)
    }

    /// Return the Dot for a given actor
    pub fn dot(&self, actor: A) -> Dot<A> {
        let counter = self.get(&actor);
        Dot::new(actor, counter)
    }

    /// True if two vector clocks have diverged.
    ///
    /// # Examples
    /// ```
    /// use crdts::{VClock, CmRDT};
    /// let (mut a, mut b) = (VClock::new(), VClock::new());
    /// a.apply(a.inc("A"));
    /// b.apply(b.inc("B"));
    /// assert!(a.concurrent(&b));
    /// ```
    pub fn concurrent(&self, other: &VClock<A>) -> bool {
        self.partial_cmp(other).is_none()
    }

    /// Returns `true` if this vector clock contains nothing.
    pub fn is_empty(&self) -> bool {
        self.dots.is_empty()
    }

    /// Returns the common elements (same actor and counter)
    /// for two `VClock` instances.
    pub fn intersection(left: &VClock<A>, right: &VClock<A>) -> VClock<A>
    where
        A: Clone,
    {
        let mut dots = BTreeMap::new();
        for (left_actor, left_counter) in left.dots.iter() {
            let right_counter = right.get(left_actor);
            if right_counter == *left_counter {
                dots.insert(left_actor.clone(), *left_counter);
            }
        }
        Self { dots }
    }

    /// Reduces this VClock to the greatest-lower-bound of the given
    /// VClock and itsef, as an example see the following code.
    /// ``` rust
    /// use crdts::{VClock, Dot, ResetRemove, CmRDT};
    /// let mut c = VClock::new();
    /// c.apply(Dot::new(23, 6));
    /// c.apply(Dot::new(89, 14));
    /// let c2 = c.clone();
    ///
    /// c.glb(&c2); // this is a no-op since `glb { c, c } = c`
    /// assert_eq!(c, c2);
    ///
    /// c.apply(Dot::new(43, 1));
    /// assert_eq!(c.get(&43), 1);
    /// c.glb(&c2); // should remove the 43 => 1 entry
    /// assert_eq!(c.get(&43), 0);
    /// ```
    pub fn glb(&mut self, other: &Self) {
        self.dots = mem::take(&mut self.dots)
            .into_iter()
            .filter_map(|(actor, count)| {
                // Since an actor missing from the dots map has an implied
                // counter of 0 we can save some memory, and remove the actor.
                let min_count = cmp::min(count, other.get(&actor));
                match min_count {
                    0 => None,
                    _ => Some((actor, min_count)),
                }
            })
            .collect();
    }

    /// Returns an iterator over the dots in this vclock
    pub fn iter(&self) -> impl Iterator<Item = Dot<&A>> {
        self.dots.iter().map(|(a, c)| Dot {
            actor: a,
            counter: *c,
        })
    }
}

/// Generated from calls to VClock::into_iter()
pub struct IntoIter<A: Ord> {
    btree_iter: btree_map::IntoIter<A, u64>,
}

impl<A: Ord> std::iter::Iterator for IntoIter<A> {
    type Item = Dot<A>;

    fn next(&mut self) -> Option<Dot<A>> {
        self.btree_iter
            .next()
            .map(|(actor, counter)| Dot::new(actor, counter))
    }
}

impl<A: Ord> std::iter::IntoIterator for VClock<A> {
    type Item = Dot<A>;
    type IntoIter = IntoIter<A>;

    /// Consumes the vclock and returns an iterator over dots in the clock
    fn into_iter(self) -> Self::IntoIter {
        IntoIter {
            btree_iter: self.dots.into_iter(),
        }
    }
}

impl<A: Ord + Clone + Debug> std::iter::FromIterator<Dot<A>> for VClock<A> {
    fn from_iter<I: IntoIterator<Item = Dot<A>>>(iter: I) -> Self {
        let mut clock = VClock::default();

        for dot in iter {
            clock.apply(dot);
        }

        clock
    }
}

impl<A: Ord + Clone + Debug> From<Dot<A>> for VClock<A> {
    fn from(dot: Dot<A>) -> Self {
        let mut clock = VClock::default();
        clock.apply(dot);
        clock
    }
}

#[cfg(feature = "quickcheck")]
use quickcheck::{Arbitrary, Gen};

#[cfg(feature = "quickcheck")]
impl<A: Ord + Clone + Debug + Arbitrary> Arbitrary for VClock<A> {
    fn arbitrary(g: &mut Gen) -> Self {
        let mut clock = VClock::default();

        for _ in 0..u8::arbitrary(g) % 10 {
            clock.apply(Dot::arbitrary(g));
        }

        clock
    }

    fn shrink(&self) -> Box<dyn Iterator<Item = Self>> {
        let mut shrunk_clocks = Vec::default();
        for dot in self.clone().into_iter() {
            let clock_without_dot: Self = self.clone().into_iter().filter(|d| d != &dot).collect();

            for shrunk_dot in dot.shrink() {
                let mut clock = clock_without_dot.clone();
                clock.apply(shrunk_dot);
                shrunk_clocks.push(clock);
            }

            shrunk_clocks.push(clock_without_dot);
        }

        Box::new(shrunk_clocks.into_iter())
    }
}
