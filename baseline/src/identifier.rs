//! Dense Identifiers.
//!
//! It's sometimes usefult to be able to create identifiers for which we know there
//! is always space between values to create another.

//! That is, if we have identifiers `a`, `b` with `a != b` then we can always construct
//! an  identifier `c` s.t. `a < c < b` or `a > c > b`.
//!
//! The GList and List CRDT's rely on this property so that we may always insert elements
//! between any existing elements.
use core::cmp::Ordering;
use core::fmt;

use num::{BigRational, One, Zero};
use serde::{Deserialize, Serialize};

fn rational_between(low: Option<&BigRational>, high: Option<&BigRational>) -> BigRational {
    match (low, high) {
        (None, None) => BigRational::zero(),
        (Some(low), None) => low + BigRational::one(),
        (None, Some(high)) => high - BigRational::one(),
        (Some(low), Some(high)) => (low + high) / BigRational::from_integer(2.into()),
    }
}

/// A dense Identifier, if you have two identifiers that are different, we can
/// always construct an identifier between them.
#[derive(Debug, Clone, Serialize, Deserialize, PartialEq, Eq, Hash)]
#[serde(transparent)]
pub struct Identifier<T>(Vec<(BigRational, T)>);

impl<T: Ord> PartialOrd for Identifier<T> {
    fn partial_cmp(&self, other: &Self) -> Option<Ordering> {
        Some(self.cmp(other))
    }
}

impl<T: Ord> Ord for Identifier<T> {
    fn cmp(&self, other: &Self) -> Ordering {
        let mut self_path = self.0.iter();
        let mut other_path = other.0.iter();
        loop {
            match (self_path.next(), other_path.next()) {
                (Some(self_node), Some(other_node)) => match self_node.cmp(other_node) {
                    Ordering::Equal => continue,
                    ord => return ord,
                },
                (None, Some(_)) => return Ordering::Greater,
                (Some(_), None) => return Ordering::Less,
                (None, None) => return Ordering::Equal,
            }
        }
    }
}

impl<T> From<(BigRational, T)> for Identifier<T> {
    fn from((rational, value): (BigRational, T)) -> Self {
        Self(vec![(rational, value)])
    }
}

impl<T: Clone + Ord + Eq> Identifier<T> {
    /// Get a reference to the value this entry represents.
    pub fn value(&self) -> &T {
        self.0.last().map(|(_, elem)| elem).unwrap() // TODO: remove this unwrap
    }

    /// Get the value this entry represents, consuming the entry.
    pub fn into_value(mut self) -> T {
        self.0.pop().map(|(_, elem)| elem).unwrap() // TODO: remove this unwrap
    }

    /// Construct an entry between low and high holding the given element.
    pub fn between(low: Option<&Self>, high: Option<&Self>, marker: T) -> Self {
        match (low, high) {
            (Some(low), Some(high)) => {
                match low.cmp(high) {
                    Ordering::Greater => return Self::between(Some(high), Some(low), marker),
                    Ordering::Equal => return high.clone(),
                    _ => (),
                }

                // Walk both paths until we reach a fork, constructing the path between these
                // two entries as we go.

                let mut path: Vec<(BigRational, T)> = vec![];

                let mut low_path: Box<dyn std::iter::Iterator<Item = &(BigRational, T)>> =
                    Box::new(low.0.iter());
                let mut high_path: Box<dyn std::iter::Iterator<Item = &(BigRational, T)>> =
                    Box::new(high.0.iter());
                loop {
                    match (low_path.next(), high_path.next()) {
                        (Some((l_ratio, l_m)), Some((h_ratio, h_m))) if l_ratio == h_ratio => {
                            if l_m < &marker && &marker < h_m {
                                // The marker fits between the low and high marker
                                path.push((h_ratio.clone(), marker));
                                break;
                            } else if l_m == h_m {
                                // We are on a common prefix of the two paths, copy it over
                                // to our output path and continue till we reach a fork.
                                path.push((h_ratio.clone(), h_m.clone()));
                            } else {
                                // Otherwise, the two paths have diverged.
                                // Choose one path and clear out the other.
                                path.push((h_ratio.clone(), h_m.clone()));
                                low_path = Box::new(std::iter::empty());
                            }
                        }
                        (low_node, high_node) => {
                            path.push((
                                rational_between(low_node.map(|n| &n.0), high_node.map(|n| &n.0)),
                                marker,
                            ));
                            break;
                        }
                    }
                }
                Self(path)
            }

            (low, high) => Self(vec![(
                rational_between(
                    low.and_then(|low_entry| low_entry.0.first().map(|(r, _)| r)),
                    high.and_then(|high_entry| high_entry.0.first().map(|(r, _)| r)),
                ),
                marker,
            )]),
        }
    }
}

impl<T: fmt::Display> fmt::Display for Identifier<T> {
    fn fmt(&self, f: &mut fmt::Formatter<'_>) -> fmt::Result {
        write!(f, "ID[")?;
        let mut iter = self.0.iter();
        if let Some((r, e)) = iter.next() {
            write!(f, "{}:{}", r, e)?;
        }
        for (r, e) in iter {
            write!(f, ", {}:{}", r, e)?;
        }
        write!(f, "]")
    }
}

#[cfg(feature = "quickcheck")]
use quickcheck::{Arbitrary, Gen};

#[cfg(feature = "quickcheck")]
impl<T: Arbitrary> Arbitrary for Identifier<T> {
    fn arbitrary(g: &mut Gen) -> Self {
        let mut path = vec![];
        for _ in 0..(u8::arbitrary(g) % 7) {
            let ordering_index_material: Vec<(i64, i64)> = Arbitrary::arbitrary(g);
            let ordering_index = ordering_index_material
                .into_iter()
                .filter(|(_, d)| d != &0)
                .take(3)
                .map(|(n, d)| BigRational::new(n.into(), d.into()))
                .sum();
            path.push((ordering_index, T::arbitrary(g)));
        }
        Self(path)
    }

    fn shrink(&self) -> Box<dyn Iterator<Item = Self>> {
        let mut path = self.0.clone();
        let last_elem_opt = path.pop();
        if last_elem_opt.is_some() {
            Box::new(std::iter::once(Self(path)))
        } else {
            Box::new(std::iter::empty())
        }
    }
}

#[cfg(test)]
mod tests {
    use super::*;

    #[test]
    fn test_adding_zero_node_makes_identifier_smaller() {
        let id_a = Identifier(vec![
            (BigRational::new(0.into(), 1.into()), 0),
            (BigRational::new(0.into(), 1.into()), 0),
        ]);
        let id_b = Identifier(vec![(BigRational::new(0.into(), 1.into()), 0)]);
        assert!(id_a < id_b);
    }

    #[test]
    fn test_id_is_dense_qc1() {
        let id_a = Identifier(vec![
            (BigRational::new(0i64.into(), 1i64.into()), 0),
            (BigRational::new(0i64.into(), 1.into()), 0),
        ]);
        let id_b = Identifier(vec![(BigRational::new(0i64.into(), 1i64.into()), 0)]);
        println!("id_a: {}", id_a);
        println!("id_b: {}", id_b);
        println!("id_a < id_b: {:?}", id_a < id_b);
        println!("id_b < id_a: {:?}", id_b < id_a);
        assert!(id_a < id_b);

        let id_mid = Identifier::between(Some(&id_a), Some(&id_b), 0);
        println!("minmax: {}, {}", id_a, id_b);
        assert!(id_a < id_mid, "{} < {}", id_a, id_mid);
        assert!(id_mid < id_b, "{} < {}", id_mid, id_b);
    }

    #[test]
    fn test_id_is_dense_qc2() {
        let id_a = Identifier(vec![
            (BigRational::new(0.into(), 1.into()), 1),
            (BigRational::new((-1).into(), 1.into()), 0),
        ]);
        let id_b = Identifier(vec![
            (BigRational::new(0.into(), 1.into()), 0),
            (BigRational::new(0.into(), 1.into()), 0),
        ]);
        let marker = 0;

        let (id_min, id_max) = if id_a < id_b {
            (id_a, id_b)
        } else {
            (id_b, id_a)
        };

        let id_mid = Identifier::between(Some(&id_min), Some(&id_max), marker);

        if id_min == id_max {
            assert_eq!(id_min, id_mid);
            assert_eq!(id_max, id_mid);
        } else {
            assert!(id_min < id_mid, "{} < {}", id_min, id_mid);
            assert!(id_mid < id_max, "{} < {}", id_mid, id_max);
        }
    }

    #[test]
    fn test_id_is_dense_qc3() {
        let (id_a, id_b, marker) = (
            Identifier(vec![(BigRational::new(0.into(), 1.into()), 1)]),
            Identifier(vec![(BigRational::new(0.into(), 1.into()), 0)]),
            0,
        );
        let (id_min, id_max) = if id_a < id_b {
            (id_a, id_b)
        } else {
            (id_b, id_a)
        };

        let id_mid = Identifier::between(Some(&id_min), Some(&id_max), marker);

        if id_min == id_max {
            assert_eq!(id_min, id_mid);
            assert_eq!(id_max, id_mid);
        } else {
            assert!(id_min < id_mid, "{} < {}", id_min, id_mid);
            assert!(id_mid < id_max, "{} < {}", id_mid, id_max);
        }
    }

    #[cfg(feature = "quickcheck")]
    mod prop_tests {
        use super::*;
        use quickcheck::TestResult;
        use quickcheck_macros::quickcheck;

        #[quickcheck]
        fn prop_id_is_dense(id_a: Identifier<u8>, id_b: Identifier<u8>, marker: u8) -> TestResult {
            let (id_min, id_max) = if id_a < id_b {
                (id_a, id_b)
            } else {
                (id_b, id_a)
            };

            let id_mid = Identifier::between(Some(&id_min), Some(&id_max), marker);

            if id_min == id_max {
                assert_eq!(id_min, id_mid);
                assert_eq!(id_max, id_mid);
            } else {
                assert!(id_min < id_mid, "{} < {}", id_min, id_mid);
                assert!(id_mid < id_max, "{} < {}", id_mid, id_max);
            }

            TestResult::passed()
        }

        #[quickcheck]
        fn prop_id_ord_is_transitive(
            id_a: Identifier<u8>,
            id_b: Identifier<u8>,
            id_c: Identifier<u8>,
        ) {
            let a_b_ord = id_a.cmp(&id_b);
            let a_c_ord = id_a.cmp(&id_c);
            let b_c_ord = id_b.cmp(&id_c);

            if a_b_ord == b_c_ord {
                assert_eq!(a_b_ord, a_c_ord);
            }
            if id_a == id_b {
                assert_eq!(a_c_ord, b_c_ord);
            }
        }

        #[test]
        fn test_id_is_dense_with_empty_identifier() {
            let id_min = Identifier(vec![(BigRational::from_integer((-1000).into()), 65)]);
            let id_max = Identifier(vec![]);
            let marker = 0;

            assert!(id_min < id_max);

            let id_mid = Identifier::between(Some(&id_min), Some(&id_max), marker);
            println!("mid: {}", id_mid);
            assert!(id_min < id_mid);
            assert!(id_mid < id_max);
        }
    }
}
