// Causality barrier
// For each known peer, keeps track of the latest clock seen
// and a set of messages that are from the future
// and outputs the full-in-order sequence of messages
//
//
#![allow(missing_docs)]

use std::cmp::Ordering;
use std::collections::*;
use std::hash::Hash;

use serde::{self, Deserialize, Serialize};

use crate::Dot;

/// Version Vector with Exceptions
#[derive(Debug, Serialize, Deserialize)]
struct CausalityBarrier<A: Hash + Eq, T: CausalOp<A>> {
    peers: HashMap<A, VectorEntry>,
    // TODO: this dot here keying the T comes from `T::happens_after()`
    //       Why do we need to store this,
    buffer: HashMap<Dot<A>, T>,
}

type LogTime = u64;

#[derive(Serialize, Deserialize, Clone, Debug, Default)]
struct VectorEntry {
    // The version of the next message we'd like to see
    next_version: LogTime,
    exceptions: HashSet<LogTime>,
}

impl VectorEntry {
    fn new() -> Self {
        VectorEntry::default()
    }

    fn increment(&mut self, clk: LogTime) {
        match clk.cmp(&self.next_version) {
            // We've resolved an exception
            Ordering::Less => {
                self.exceptions.remove(&clk);
            }
            // This is what we expected to see as the next op
            Ordering::Equal => self.next_version += 1,
            // We've just found an exception
            Ordering::Greater => (self.next_version + 1..clk).for_each(|i| {
                self.exceptions.insert(i);
            }),
        };
    }

    fn is_ready(&self, clk: LogTime) -> bool {
        clk < self.next_version && self.no_exceptions(clk)
    }

    /// Calculate the difference between a remote VectorEntry and ours.
    /// Specifically, we want the set of operations we've seen that the remote hasn't
    fn diff_from(&self, other: &Self) -> HashSet<LogTime> {
        // 1. Find (new) operations that we've seen locally that the remote hasn't
        let local_ops =
            (other.next_version..self.next_version).filter(|ix: &LogTime| self.no_exceptions(*ix));

        // 2. Find exceptions that we've seen.
        let mut local_exceptions = other.exceptions.difference(&self.exceptions).cloned();

        local_ops.chain(&mut local_exceptions).collect()
    }

    fn no_exceptions(&self, clk: LogTime) -> bool {
        !self.exceptions.contains(&clk)
    }
}

trait CausalOp<A> {
    /// TODO: result should be a VClock<A> since an op could be dependant on a few different msgs
    /// If the result is Some(dot) then this operation cannot occur until the operation that
    /// occured at dot has.
    fn happens_after(&self) -> Option<Dot<A>>;

    /// The time that the current operation occured at
    fn dot(&self) -> Dot<A>;
}

impl<A: Hash + Eq, T: CausalOp<A>> Default for CausalityBarrier<A, T> {
    fn default() -> Self {
        CausalityBarrier {
            peers: HashMap::new(),
            buffer: HashMap::new(),
        }
    }
}

impl<A: Hash + Clone + Eq, T: CausalOp<A>> CausalityBarrier<A, T> {
    fn new() -> Self {
        CausalityBarrier::default()
    }

    fn ingest(&mut self, op: T) -> Option<T> {
        let v = self.peers.entry(op.dot().actor).or_default();
        // Have we already seen this op?
        if v.is_ready(op.dot().counter) {
            return None;
        }

        v.increment(op.dot().counter);

        // Ok so it's an exception but maybe we can still integrate it if it's not constrained
        // by a happens-before relation.
        // For example: we can always insert into most CRDTs but we can only delete if the
        // corresponding insert happened before!
        match op.happens_after() {
            // Dang! we have a happens after relation!
            Some(dot) => {
                // Let's buffer this operation then.
                if !self.saw_site_dot(&dot) {
                    self.buffer.insert(dot, op);
                    // and do nothing
                    None
                } else {
                    Some(op)
                }
            }
            None => {
                // Ok so we're not causally constrained, but maybe we already saw an associated
                // causal operation? If so let's just delete the pair
                match self.buffer.remove(&op.dot()) {
                    Some(_) => None, // we are dropping the dependent op! that can't be right
                    None => Some(op),
                }
            }
        }
    }

    fn saw_site_dot(&self, dot: &Dot<A>) -> bool {
        // TODO: shouldn't need to deconstruct a dot like this
        match self.peers.get(&dot.actor) {
            Some(ent) => ent.is_ready(dot.counter),
            None => false,
        }
    }

    fn expel(&mut self, op: T) -> T {
        let v = self.peers.entry(op.dot().actor).or_default();
        v.increment(op.dot().counter);
        op
    }

    fn diff_from(&self, other: &HashMap<A, VectorEntry>) -> HashMap<A, HashSet<LogTime>> {
        let mut ret = HashMap::new();
        for (site_id, entry) in self.peers.iter() {
            let e_diff = match other.get(site_id) {
                Some(remote_entry) => entry.diff_from(remote_entry),
                None => (0..entry.next_version).collect(),
            };
            ret.insert(site_id.clone(), e_diff);
        }
        ret
    }

    fn vvwe(&self) -> HashMap<A, VectorEntry> {
        self.peers.clone()
    }
}

#[cfg(test)]
mod test {
    use super::*;

    type SiteId = u32;

    #[derive(PartialEq, Debug, Hash, Clone)]
    enum Op {
        Insert(u64),
        Delete(SiteId, LogTime),
    }

    #[derive(PartialEq, Debug, Hash, Clone)]
    struct CausalMessage {
        time: LogTime,
        local_id: SiteId,
        op: Op,
    }

    impl CausalOp<SiteId> for CausalMessage {
        fn happens_after(&self) -> Option<Dot<SiteId>> {
            match self.op {
                Op::Insert(_) => None,
                Op::Delete(s, l) => Some(Dot::new(s, l)),
            }
        }

        fn dot(&self) -> Dot<SiteId> {
            Dot::new(self.local_id, self.time)
        }
    }

    #[test]
    fn delete_before_insert() {
        let mut barrier = CausalityBarrier::new();

        let ins = CausalMessage {
            time: 0,
            local_id: 1,
            op: Op::Insert(0),
        };

        let del = CausalMessage {
            time: 1,
            local_id: 1,
            op: Op::Delete(1, 0),
        };

        assert_eq!(barrier.ingest(ins.clone()), Some(ins));
        assert_eq!(barrier.ingest(del.clone()), Some(del));
    }

    #[test]
    fn out_of_order() {
        let mut barrier = CausalityBarrier::new();

        let ins = CausalMessage {
            time: 0,
            local_id: 1,
            op: Op::Insert(0),
        };

        let del = CausalMessage {
            time: 1,
            local_id: 1,
            op: Op::Delete(1, 0),
        };

        assert_eq!(barrier.ingest(del), None);
        assert_eq!(barrier.ingest(ins), None);
    }

    #[test]
    fn insert() {
        let mut barrier = CausalityBarrier::new();

        let ins = CausalMessage {
            time: 1,
            local_id: 1,
            op: Op::Insert(0),
        };
        assert_eq!(barrier.ingest(ins.clone()), Some(ins));
    }

    #[test]
    fn insert_then_delete() {
        let mut barrier = CausalityBarrier::new();

        let ins = CausalMessage {
            time: 0,
            local_id: 1,
            op: Op::Insert(0),
        };
        let del = CausalMessage {
            time: 1,
            local_id: 1,
            op: Op::Delete(1, 1),
        };
        assert_eq!(barrier.ingest(ins.clone()), Some(ins));
        assert_eq!(barrier.ingest(del.clone()), Some(del));
    }

    #[test]
    fn delete_before_insert_multiple_sites() {
        let mut barrier = CausalityBarrier::new();

        let del = CausalMessage {
            time: 0,
            local_id: 2,
            op: Op::Delete(1, 5),
        };
        let ins = CausalMessage {
            time: 5,
            local_id: 1,
            op: Op::Insert(0),
        };
        assert_eq!(barrier.ingest(del), None);
        assert_eq!(barrier.ingest(ins), None);
    }

    #[test]
    fn entry_diff_new_entries() {
        let a = VectorEntry::new();
        let b = VectorEntry {
            next_version: 10,
            exceptions: HashSet::new(),
        };

        let c: HashSet<LogTime> = (0..10).into_iter().collect();
        assert_eq!(b.diff_from(&a), c);
    }

    #[test]
    fn entry_diff_found_exceptions() {
        let a = VectorEntry {
            next_version: 10,
            exceptions: [1, 2, 3, 4].iter().cloned().collect(),
        };
        let b = VectorEntry {
            next_version: 5,
            exceptions: HashSet::new(),
        };

        let c: HashSet<LogTime> = [1, 2, 3, 4].iter().cloned().collect();
        assert_eq!(b.diff_from(&a), c);
    }

    #[test]
    fn entry_diff_complex() {
        // a has seen 0, 5
        let a = VectorEntry {
            next_version: 6,
            exceptions: [1, 2, 3, 4].iter().cloned().collect(),
        };
        // b has seen 0, 1, 5,6,7,8
        let b = VectorEntry {
            next_version: 9,
            exceptions: [2, 3, 4].iter().cloned().collect(),
        };

        // c should be 1,6,7,8
        let c: HashSet<LogTime> = [1, 6, 7, 8].iter().cloned().collect();
        assert_eq!(b.diff_from(&a), c);
    }
}
