use std::fmt::Debug;

use serde::{Deserialize, Serialize};

use crate::{CmRDT, Dot, VClock};

/// ReadCtx's are used to extract data from CRDT's while maintaining some causal history.
/// You should store ReadCtx's close to where mutation is exposed to the user.
///
/// e.g. Ship ReadCtx to the clients, then derive an Add/RmCtx and ship that back to
/// where the CRDT is stored to perform the mutation operation.
#[derive(Debug, PartialEq, Eq, Serialize, Deserialize)]
pub struct ReadCtx<V, A: Ord> {
    /// clock used to derive an AddCtx
    pub add_clock: VClock<A>,

    /// clock used to derive an RmCtx
    pub rm_clock: VClock<A>,

    /// the data read from the CRDT
    pub val: V,
}

/// AddCtx is used for mutations that add new information to a CRDT
#[derive(Debug, Serialize, Deserialize)]
pub struct AddCtx<A: Ord> {
    /// The adding vclock context
    pub clock: VClock<A>,

    /// The Actor and the Actor's version at the time of the add
    pub dot: Dot<A>,
}

/// RmCtx is used for mutations that remove information from a CRDT
#[derive(Debug, Clone, Serialize, Deserialize)]
pub struct RmCtx<A: Ord> {
    /// The removing vclock context
    pub clock: VClock<A>,
}

impl<V, A: Ord + Clone + Debug> ReadCtx<V, A> {
    /// Derives an AddCtx for a given actor from a ReadCtx
    pub fn derive_add_ctx(self, actor: A) -> AddCtx<A> {
        let mut clock = self.add_clock;
        let dot = clock.inc(actor);
        clock.apply(dot.clone());
        AddCtx { clock, dot }
    }

    /// Derives a RmCtx from a ReadCtx
    pub fn derive_rm_ctx(self) -> RmCtx<A> {
        RmCtx {
            clock: self.rm_clock,
        }
    }

    /// Splits this ReadCtx into its data and an empty ReadCtx
    pub fn split(self) -> (V, ReadCtx<(), A>) {
        (
            self.val,
            ReadCtx {
                add_clock: self.add_clock,
                rm_clock: self.rm_clock,
                val: (),
            },
        )
    }
}
