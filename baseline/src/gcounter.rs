use core::convert::Infallible;
use core::fmt::Debug;

use num::bigint::BigUint;
use serde::{Deserialize, Serialize};

use crate::{CmRDT, CvRDT, Dot, ResetRemove, VClock};

/// `GCounter` is a grow-only witnessed counter.
///
/// # Examples
///
/// ```
/// use crdts::{GCounter, CmRDT};
///
/// let mut a = GCounter::new();
/// let mut b = GCounter::new();
///
/// a.apply(a.inc("A"));
/// b.apply(b.inc("B"));
///
/// assert_eq!(a.read(), b.read());
///
/// a.apply(a.inc("A"));
/// assert!(a.read() > b.read());
/// ```
#[derive(Debug, PartialEq, Eq, Clone, Hash, Serialize, Deserialize)]
#[serde(transparent)]
pub struct GCounter<A: Ord> {
    inner: VClock<A>,
}

impl<A: Ord> Default for GCounter<A> {
    fn default() -> Self {
        Self {
            inner: Default::default(),
        }
    }
}

impl<A: Ord + Clone + Debug> CmRDT for GCounter<A> {
    type Op = Dot<A>;
    type Validation = Infallible;

    fn validate_op(&self, _op: &Self::Op) -> Result<(), Self::Validation> {
        Ok(())
    }

    fn apply(&mut self, op: Self::Op) {
        self.inner.apply(op)
    }
}

impl<A: Ord + Clone + Debug> CvRDT for GCounter<A> {
    type Validation = Infallible;

    fn validate_merge(&self, _other: &Self) -> Result<(), Self::Validation> {
        Ok(())
    }

    fn merge(&mut self, other: Self) {
        self.inner.merge(other.inner);
    }
}

impl<A: Ord> ResetRemove<A> for GCounter<A> {
    fn reset_remove(&mut self, clock: &VClock<A>) {
        self.inner.reset_remove(clock);
    }
}

impl<A: Ord + Clone> GCounter<A> {
    /// Produce a new `GCounter`.
    pub fn new() -> Self {
        Default::default()
    }

    /// Generate Op to increment the counter.
    pub fn inc(&self, actor: A) -> Dot<A> {
        self.inner.inc(actor)
    }

    /// Generate Op to increment the counter by a number of steps.
    pub fn inc_many(&self, actor: A, steps: u64) -> Dot<A> {
        let steps = steps + self.inner.get(&actor);
        Dot::new(actor, steps)
    }

    /// Return the current sum of this counter.
    pub fn read(&self) -> BigUint {
        self.inner.iter().map(|dot| dot.counter).sum()
    }
}

#[cfg(test)]
mod test {
    use super::*;

    #[test]
    fn test_basic_by_one() {
        let mut a = GCounter::new();
        let mut b = GCounter::new();
        a.apply(a.inc("A"));
        b.apply(b.inc("B"));

        assert_eq!(a.read(), b.read());
        assert_ne!(a, b);

        a.apply(a.inc("A"));

        assert_eq!(a.read(), b.read() + BigUint::from(1u8));
    }

    #[test]
    fn test_basic_by_many() {
        let mut a = GCounter::new();
        let mut b = GCounter::new();
        let steps = 3;

        a.apply(a.inc_many("A", steps));
        b.apply(b.inc_many("B", steps));

        assert_eq!(a.read(), b.read());
        assert_ne!(a, b);

        a.apply(a.inc_many("A", steps));

        assert_eq!(a.read(), b.read() + BigUint::from(steps));
    }
}
