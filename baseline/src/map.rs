use std::cmp::Ordering;
use std::collections::HashMap;
use std::collections::{BTreeMap, BTreeSet};
use std::fmt::{self, Debug, Display};
use std::hash::Hash;
use std::mem;

use serde::{Deserialize, Serialize};

use crate::ctx::{AddCtx, ReadCtx, RmCtx};
use crate::{CmRDT, CvRDT, Dot, ResetRemove, VClock};

/// Val Trait alias to reduce redundancy in type decl.
pub trait Val<A: Ord>: Clone + Default + ResetRemove<A> + CmRDT {}

impl<A, T> Val<A> for T
where
    A: Ord,
    T: Clone + Default + ResetRemove<A> + CmRDT,
{
}

/// Map CRDT - Supports Composition of CRDT's with reset-remove semantics.
///
/// Reset-remove means that if one replica removes an entry while another
/// actor concurrently edits that entry, once we sync these two maps, we
/// will see that the entry is still in the map but all edits seen by the
/// removing actor will be gone.
///
/// See examples/reset_remove.rs for an example of reset-remove semantics
/// in action.
#[derive(Debug, Clone, PartialEq, Eq, Serialize, Deserialize)]
pub struct Map<K: Ord, V: Val<A>, A: Ord + Hash> {
    // This clock stores the current version of the Map, it should
    // be greator or equal to all Entry.clock's in the Map.
    clock: VClock<A>,
    entries: BTreeMap<K, Entry<V, A>>,
    deferred: HashMap<VClock<A>, BTreeSet<K>>,
}

#[derive(Debug, Clone, PartialEq, Eq, Serialize, Deserialize)]
struct Entry<V: Val<A>, A: Ord> {
    // The entry clock tells us which actors edited this entry.
    clock: VClock<A>,

    // The nested CRDT
    val: V,
}

/// Operations which can be applied to the Map CRDT
#[derive(Debug, Clone, PartialEq, Eq, Serialize, Deserialize)]
pub enum Op<K: Ord, V: Val<A>, A: Ord> {
    /// Remove a key from the map
    Rm {
        /// The clock under which we will perform this remove
        clock: VClock<A>,
        /// Key to remove
        keyset: BTreeSet<K>,
    },
    /// Update an entry in the map
    Up {
        /// Actors version at the time of the update
        dot: Dot<A>,
        /// Key of the value to update
        key: K,
        /// The operation to apply on the value under `key`
        op: V::Op,
    },
}

impl<V: Val<A>, A: Ord> Default for Entry<V, A> {
    fn default() -> Self {
        Self {
            clock: VClock::default(),
            val: V::default(),
        }
    }
}

impl<K: Ord, V: Val<A>, A: Ord + Hash> Default for Map<K, V, A> {
    fn default() -> Self {
        Self {
            clock: Default::default(),
            entries: Default::default(),
            deferred: Default::default(),
        }
    }
}

impl<K: Ord, V: Val<A>, A: Ord + Hash> ResetRemove<A> for Map<K, V, A> {
    fn reset_remove(&mut self, clock: &VClock<A>) {
        self.entries = mem::take(&mut self.entries)
            .into_iter()
            .filter_map(|(key, mut entry)| {
                entry.clock.reset_remove(clock);
                entry.val.reset_remove(clock);
                if entry.clock.is_empty() {
                    None // remove this entry since its been forgotten
                } else {
                    Some((key, entry))
                }
            })
            .collect();

        let mut deferred: HashMap<VClock<A>, BTreeSet<K>> = HashMap::new();
        for (mut rm_clock, mut keys) in mem::take(&mut self.deferred) {
            rm_clock.reset_remove(clock);
            if !rm_clock.is_empty() {
                // two deferred removes may end up with the same clock: keep the keys of both
                deferred.entry(rm_clock).or_default().append(&mut keys);
            }
            // else: this deferred remove has been forgotten
        }
        self.deferred = deferred;

        self.clock.reset_remove(clock);
    }
}

/// The various validation errors that may occur when using a Map CRDT.
#[derive(Debug, PartialEq, Eq)]
pub enum CmRDTValidation<V: CmRDT, A> {
    /// We are missing dots specified in the DotRange
    SourceOrder(crate::DotRange<A>),

    /// There is a validation error in the nested CRDT.
    Value(V::Validation),
}

impl<V: CmRDT + Debug, A: Debug> Display for CmRDTValidation<V, A> {
    fn fmt(&self, f: &mut fmt::Formatter<'_>) -> fmt::Result {
        Debug::fmt(&self, f)
    }
}

impl<V: CmRDT + Debug, A: Debug> std::error::Error for CmRDTValidation<V, A> {}

/// The various validation errors that may occur when using a Map CRDT.
#[derive(Debug, PartialEq, Eq)]
pub enum CvRDTValidation<K, V: CvRDT, A> {
    /// We've detected that two different members were inserted with the same dot.
    /// This can break associativity.
    DoubleSpentDot {
        /// The dot that was double spent
        dot: Dot<A>,
        /// Our member inserted with this dot
        our_key: K,
        /// Their member inserted with this dot
        their_key: K,
    },

    /// There is a validation error in the nested CRDT.
    Value(V::Validation),
}

impl<K: Debug, V: CvRDT + Debug, A: Debug> Display for CvRDTValidation<K, V, A> {
    fn fmt(&self, f: &mut fmt::Formatter<'_>) -> fmt::Result {
        Debug::fmt(&self, f)
    }
}

impl<K: Debug, V: CvRDT + Debug, A: Debug> std::error::Error for CvRDTValidation<K, V, A> {}

impl<K: Ord, V: Val<A> + Debug, A: Ord + Hash + Clone + Debug> CmRDT for Map<K, V, A> {
    type Op = Op<K, V, A>;
    type Validation = CmRDTValidation<V, A>;

    fn validate_op(&self, op: &Self::Op) -> Result<(), Self::Validation> {
        match op {
            Op::Rm { .. } => Ok(()),
            Op::Up { dot, key, op } => {
                self.clock
                    .validate_op(dot)
                    .map_err(CmRDTValidation::SourceOrder)?;
                // The entry clock only holds the dots of updates to this key, so it has
                // gaps whenever an actor also edits other keys: source order is judged by
                // the map clock alone.
                let entry = self.entries.get(key).cloned().unwrap_or_default();
                entry.val.validate_op(op).map_err(CmRDTValidation::Value)
            }
        }
    }

    fn apply(&mut self, op: Self::Op) {
        match op {
            Op::Rm { clock, keyset } => self.apply_keyset_rm(keyset, clock),
            Op::Up { dot, key, op } => {
                if self.clock.get(&dot.actor) >= dot.counter {
                    // we've seen this op already
                    return;
                }

                let entry = self.entries.entry(key).or_default();

                entry.clock.apply(dot.clone());
                entry.val.apply(op);

                self.clock.apply(dot);
                self.apply_deferred();
            }
        }
    }
}

impl<K: Ord + Clone + Debug, V: Val<A> + CvRDT + Debug, A: Ord + Hash + Clone + Debug> CvRDT
    for Map<K, V, A>
{
    type Validation = CvRDTValidation<K, V, A>;

    fn validate_merge(&self, other: &Self) -> Result<(), Self::Validation> {
        for (key, entry) in self.entries.iter() {
            for (other_key, other_entry) in other.entries.iter() {
                for Dot { actor, counter } in entry.clock.iter() {
                    if other_key != key && other_entry.clock.get(actor) == counter {
                        return Err(CvRDTValidation::DoubleSpentDot {
                            dot: Dot::new(actor.clone(), counter),
                            our_key: key.clone(),
                            their_key: other_key.clone(),
                        });
                    }
                }

                if key == other_key && entry.clock.concurrent(&other_entry.clock) {
                    entry
                        .val
                        .validate_merge(&other_entry.val)
                        .map_err(CvRDTValidation::Value)?;
                }
            }
        }

        Ok(())
    }

    fn merge(&mut self, other: Self) {
        self.entries = mem::take(&mut self.entries)
            .into_iter()
            .filter_map(|(key, mut entry)| {
                if !other.entries.contains_key(&key) {
                    // other doesn't contain this entry because it:
                    //  1. has seen it and dropped it
                    //  2. hasn't seen it
                    if other.clock >= entry.clock {
                        // other has seen this entry and dropped it
                        None
                    } else {
                        // the other map has not seen this version of this
                        // entry, so add it. But first, we have to remove any
                        // information that may have been known at some point
                        // by the other map about this key and was removed.
                        entry.clock.reset_remove(&other.clock);
                        let mut removed_information = other.clock.clone();
                        removed_information.reset_remove(&entry.clock);
                        entry.val.reset_remove(&removed_information);
                        Some((key, entry))
                    }
                } else {
                    Some((key, entry))
                }
            })
            .collect();

        for (key, mut entry) in other.entries {
            if let Some(our_entry) = self.entries.get_mut(&key) {
                // SUBTLE: this entry is present in both maps, BUT that doesn't mean we
                // shouldn't drop it!
                // Perfectly possible that an item in both sets should be dropped
                let mut common = VClock::intersection(&entry.clock, &our_entry.clock);
                common.merge(entry.clock.clone_without(&self.clock));
                common.merge(our_entry.clock.clone_without(&other.clock));
                if common.is_empty() {
                    // both maps had seen each others entry and removed them
                    self.entries.remove(&key).unwrap();
                } else {
                    // we should not drop, as there is information still tracked in
                    // the common clock.
                    our_entry.val.merge(entry.val);

                    let mut information_that_was_deleted = entry.clock.clone();
                    information_that_was_deleted.merge(our_entry.clock.clone());
                    information_that_was_deleted.reset_remove(&common);
                    our_entry.val.reset_remove(&information_that_was_deleted);
                    our_entry.clock = common;
                }
            } else {
                // we don't have this entry, is it because we:
                //  1. have seen it and dropped it
                //  2. have not seen it
                if self.clock >= entry.clock {
                    // We've seen this entry and dropped it, we won't add it back
                } else {
                    // We have not seen this version of this entry, so we add it.
                    // but first, we have to remove the information on this entry
                    // that we have seen and deleted
                    entry.clock.reset_remove(&self.clock);

                    let mut information_we_deleted = self.clock.clone();
                    information_we_deleted.reset_remove(&entry.clock);
                    entry.val.reset_remove(&information_we_deleted);
                    self.entries.insert(key, entry);
                }
            }
        }

        // merge deferred removals
        for (rm_clock, keys) in other.deferred {
            self.apply_keyset_rm(keys, rm_clock);
        }

        self.clock.merge(other.clock);

        self.apply_deferred();
    }
}

impl<K: Ord, V: Val<A>, A: Ord + Hash + Clone> Map<K, V, A> {
    /// Constructs an empty Map
    pub fn new() -> Self {
        Default::default()
    }

    /// Returns true if the map has no entries, false otherwise
    pub fn is_empty(&self) -> ReadCtx<bool, A> {
        ReadCtx {
            add_clock: self.clock.clone(),
            rm_clock: self.clock.clone(),
            val: self.entries.is_empty(),
        }
    }

    /// Returns the number of entries in the Map
    pub fn len(&self) -> ReadCtx<usize, A> {
        ReadCtx {
            add_clock: self.clock.clone(),
            rm_clock: self.clock.clone(),
            val: self.entries.len(),
        }
    }

    /// Retrieve value stored under a key
    pub fn get(&self, key: &K) -> ReadCtx<Option<V>, A> {
        let add_clock = self.clock.clone();
        let entry_opt = self.entries.get(key);
        ReadCtx {
            add_clock,
            rm_clock: entry_opt
                .map(|map_entry| map_entry.clock.clone())
                .unwrap_or_default(),
            val: entry_opt.map(|map_entry| map_entry.val.clone()),
        }
    }

    /// Update a value under some key.
    ///
    /// If the key is not present in the map, the updater will be given the
    /// result of `V::default()`. The `default` value is used to ensure
    /// eventual consistency since our `Map`'s values are CRDTs themselves.
    ///
    /// The `impl Into<K>` bound provides a nice way of providing an input key that
    /// can easily convert to the `Map`'s key. For example, we can call this function
    /// with `"hello": &str` and it can be converted to `String`.
    pub fn update<F>(&self, key: impl Into<K>, ctx: AddCtx<A>, f: F) -> Op<K, V, A>
    where
        F: FnOnce(&V, AddCtx<A>) -> V::Op,
    {
        let key = key.into();
        let dot = ctx.dot.clone();
        let op = match self.entries.get(&key).map(|e| &e.val) {
            Some(data) => f(data, ctx),
            None => f(&V::default(), ctx),
        };

        Op::Up { dot, key, op }
    }

    /// Remove an entry from the Map
    ///
    /// The `impl Into<K>` bound provides a nice way of providing an input key that
    /// can easily convert to the `Map`'s key. For example, we can call this function
    /// with `"hello": &str` and it can be converted to `String`.
    pub fn rm(&self, key: impl Into<K>, ctx: RmCtx<A>) -> Op<K, V, A> {
        let mut keyset = BTreeSet::new();
        keyset.insert(key.into());
        Op::Rm {
            clock: ctx.clock,
            keyset,
        }
    }

    /// Retrieve the current read context
    pub fn read_ctx(&self) -> ReadCtx<(), A> {
        ReadCtx {
            add_clock: self.clock.clone(),
            rm_clock: self.clock.clone(),
            val: (),
        }
    }

    /// apply the pending deferred removes
    fn apply_deferred(&mut self) {
        let deferred = mem::take(&mut self.deferred);
        for (clock, keys) in deferred {
            self.apply_keyset_rm(keys, clock);
        }
    }

    /// Apply a set of key removals given a clock.
    fn apply_keyset_rm(&mut self, mut keyset: BTreeSet<K>, clock: VClock<A>) {
        for key in keyset.iter() {
            if let Some(entry) = self.entries.get_mut(key) {
                entry.clock.reset_remove(&clock);
                if entry.clock.is_empty() {
                    // The entry clock says we have no info on this entry.
                    // So remove the entry
                    self.entries.remove(key);
                } else {
                    // The entry clock is not empty so this means we still
                    // have some information on this entry, keep it.
                    entry.val.reset_remove(&clock);
                }
            }
        }

        // now we need to decide wether we should be keeping this
        // remove Op around to remove entries we haven't seen yet.
        match self.clock.partial_cmp(&clock) {
            None | Some(Ordering::Less) => {
                // this remove clock has information we don't have,
                // we need to log this in our deferred remove map, so
                // that we can delete keys that we haven't seen yet but
                // have been seen by this clock
                let deferred_set = self.deferred.entry(clock).or_default();
                deferred_set.append(&mut keyset);
            }
            _ => { /* we've seen all keys this clock has seen */ }
        }
    }

    /// Gets an iterator over the keys of the `Map`.
    ///
    /// # Examples
    ///
    /// ```rust
    /// use crdts::Map;
    /// use crdts::MVReg;
    /// use crdts::CmRDT;
    ///
    /// type Actor = &'static str;
    /// type Key = &'static str;
    ///
    /// let actor = "actor";
    ///
    /// let mut map: Map<i32, MVReg<Key, Actor>, Actor> = Map::new();
    ///
    /// let add_ctx = map.read_ctx().derive_add_ctx(actor);
    /// map.apply(map.update(100, add_ctx, |v, a| v.write("foo", a)));
    ///
    /// let add_ctx = map.read_ctx().derive_add_ctx(actor);
    /// map.apply(map.update(50, add_ctx, |v, a| v.write("bar", a)));
    ///
    /// let add_ctx = map.read_ctx().derive_add_ctx(actor);
    /// map.apply(map.update(200, add_ctx, |v, a| v.write("baz", a)));
    ///
    ///
    /// let mut keys: Vec<_> = map.keys().map(|key_ctx| *key_ctx.val).collect();
    ///
    /// keys.sort();
    ///
    /// assert_eq!(keys, &[50, 100, 200]);
    /// ```
    pub fn keys(&self) -> impl Iterator<Item = ReadCtx<&K, A>> {
        self.entries.iter().map(move |(k, v)| ReadCtx {
            add_clock: self.clock.clone(),
            rm_clock: v.clock.clone(),
            val: k,
        })
    }

    /// Gets an iterator over the values of the `Map`.
    ///
    /// # Examples
    ///
    /// ```rust
    /// use crdts::Map;
    /// use crdts::MVReg;
    /// use crdts::CmRDT;
    ///
    /// type Actor = &'static str;
    /// type Key = &'static str;
    ///
    /// let actor = "actor";
    ///
    /// let mut map: Map<i32, MVReg<Key, Actor>, Actor> = Map::new();
    ///
    /// let add_ctx = map.read_ctx().derive_add_ctx(actor);
    /// map.apply(map.update(100, add_ctx, |v, a| v.write("foo", a)));
    ///
    /// let add_ctx = map.read_ctx().derive_add_ctx(actor);
    /// map.apply(map.update(50, add_ctx, |v, a| v.write("bar", a)));
    ///
    /// let add_ctx = map.read_ctx().derive_add_ctx(actor);
    /// map.apply(map.update(200, add_ctx, |v, a| v.write("baz", a)));
    ///
    ///
    /// let mut values: Vec<_> = map
    ///     .values()
    ///     .map(|val_ctx| val_ctx.val.read().val[0])
    ///     .collect();
    ///
    /// values.sort();
    ///
    /// assert_eq!(values, &["bar", "baz", "foo"]);
    /// ```
    pub fn values(&self) -> impl Iterator<Item = ReadCtx<&V, A>> {
        self.entries.values().map(move |v| ReadCtx {
            add_clock: self.clock.clone(),
            rm_clock: v.clock.clone(),
            val: &v.val,
        })
    }

    /// Gets an iterator over the entries of the `Map`.
    ///
    /// # Examples
    ///
    /// ```rust
    /// use crdts::Map;
    /// use crdts::MVReg;
    /// use crdts::CmRDT;
    ///
    /// type Actor = &'static str;
    /// type Key = &'static str;
    ///
    /// let actor = "actor";
    ///
    /// let mut map: Map<i32, MVReg<Key, Actor>, Actor> = Map::new();
    ///
    /// let add_ctx = map.read_ctx().derive_add_ctx(actor);
    /// map.apply(map.update(100, add_ctx, |v, a| v.write("foo", a)));
    ///
    /// let add_ctx = map.read_ctx().derive_add_ctx(actor);
    /// map.apply(map.update(50, add_ctx, |v, a| v.write("bar", a)));
    ///
    /// let add_ctx = map.read_ctx().derive_add_ctx(actor);
    /// map.apply(map.update(200, add_ctx, |v, a| v.write("baz", a)));
    ///
    ///
    /// let mut items: Vec<_> = map
    ///     .iter()
    ///     .map(|item_ctx| (*item_ctx.val.0, item_ctx.val.1.read().val[0]))
    ///     .collect();
    ///
    /// items.sort();
    ///
    /// assert_eq!(items, &[(50, "bar"), (100, "foo"), (200, "baz")]);
    /// ```
    pub fn iter(&self) -> impl Iterator<Item = ReadCtx<(&K, &V), A>> {
        self.entries.iter().map(move |(k, v)| ReadCtx {
            add_clock: self.clock.clone(),
            rm_clock: v.clock.clone(),
            val: (k, &v.val),
        })
    }
}

#[cfg(test)]
mod test {
    use super::*;
    use crate::mvreg::{self, MVReg};
    use crate::orswot::Orswot;

    type TestActor = u8;
    type TestKey = u8;
    type TestVal = MVReg<u8, TestActor>;
    type TestMap = Map<TestKey, Map<TestKey, TestVal, TestActor>, TestActor>;

    #[test]
    fn test_get() {
        let mut m: TestMap = Map::new();

        assert_eq!(m.get(&0).val, None);

        m.clock.apply(m.clock.inc(1));

        m.entries.insert(
            0,
            Entry {
                clock: m.clock.clone(),
                val: Map::default(),
            },
        );

        assert_eq!(m.get(&0).val, Some(Map::new()));
    }

    #[test]
    fn test_op_exchange_converges_quickcheck1() {
        let op_actor1 = Op::Up {
            dot: Dot::new(0, 3),
            key: 9,
            op: Op::Up {
                dot: Dot::new(0, 3),
                key: 0,
                op: mvreg::Op::Put {
                    clock: Dot::new(0, 3).into(),
                    val: 0,
                },
            },
        };
        let op_1_actor2 = Op::Up {
            dot: Dot::new(1, 1),
            key: 9,
            op: Op::Rm {
                clock: Dot::new(1, 1).into(),
                keyset: vec![0].into_iter().collect(),
            },
        };
        let op_2_actor2 = Op::Rm {
            clock: Dot::new(1, 2).into(),
            keyset: vec![9].into_iter().collect(),
        };

        let mut m1: TestMap = Map::new();
        let mut m2: TestMap = Map::new();

        m1.apply(op_actor1.clone());
        assert_eq!(m1.clock, Dot::new(0, 3).into());
        assert_eq!(m1.entries[&9].clock, Dot::new(0, 3).into());
        assert_eq!(m1.entries[&9].val.deferred.len(), 0);

        m2.apply(op_1_actor2.clone());
        m2.apply(op_2_actor2.clone());
        assert_eq!(m2.clock, Dot::new(1, 1).into());
        assert_eq!(m2.entries.get(&9), None);
        assert_eq!(
            m2.deferred.get(&Dot::new(1, 2).into()),
            Some(&vec![9].into_iter().collect())
        );

        // m1 <- m2
        m1.apply(op_1_actor2);
        m1.apply(op_2_actor2);

        // m2 <- m1
        m2.apply(op_actor1);

        // m1 <- m2 == m2 <- m1
        assert_eq!(m1, m2);
    }

    #[test]
    fn merge_error() {
        let mut m1: Map<u8, Orswot<u8, u8>, u8> = Map {
            clock: VClock::from(Dot::new(75, 1)),
            entries: BTreeMap::new(),
            deferred: HashMap::new(),
        };

        let mut m2: Map<u8, Orswot<u8, u8>, u8> = Map {
            clock: vec![Dot::new(75, 1), Dot::new(93, 1)].into_iter().collect(),
            entries: vec![(
                101,
                Entry {
                    clock: vec![Dot::new(75, 1), Dot::new(93, 1)].into_iter().collect(),
                    val: Orswot {
                        clock: vec![Dot::new(75, 1), Dot::new(93, 1)].into_iter().collect(),
                        entries: vec![
                            (1, VClock::from(Dot::new(75, 1))),
                            (2, VClock::from(Dot::new(93, 1))),
                        ]
                        .into_iter()
                        .collect(),
                        deferred: HashMap::new(),
                    },
                },
            )]
            .into_iter()
            .collect(),
            deferred: HashMap::new(),
        };

        m1.merge(m2.clone());

        assert_eq!(
            m1,
            Map {
                clock: vec![Dot::new(75, 1), Dot::new(93, 1)].into_iter().collect(),
                entries: vec![(
                    101,
                    Entry {
                        clock: Dot::new(93, 1).into(),
                        val: Orswot {
                            clock: vec![Dot::new(93, 1)].into_iter().collect(),
                            entries: vec![(2, VClock::from(Dot::new(93, 1)))]
                                .into_iter()
                                .collect(),
                            deferred: HashMap::new()
                        }
                    }
                )]
                .into_iter()
                .collect(),
                deferred: HashMap::new()
            }
        );

        m2.merge(m1.clone());

        assert_eq!(m1, m2);
    }
}
