/// Observed-Remove Set With Out Tombstones (ORSWOT), ported directly from `riak_dt`.
use std::cmp::Ordering;
use std::collections::{HashMap, HashSet};
use std::fmt::{Debug, Display};
use std::hash::Hash;
use std::mem;

use serde::{Deserialize, Serialize};

use crate::ctx::{AddCtx, ReadCtx, RmCtx};
use crate::{CmRDT, CvRDT, Dot, ResetRemove, VClock};

/// `Orswot` is an add-biased or-set without tombstones ported from
/// the riak_dt CRDT library.
#[derive(Debug, Clone, PartialEq, Eq, Serialize, Deserialize)]
pub struct Orswot<M: Hash + Eq, A: Ord + Hash> {
    pub(crate) clock: VClock<A>,
    pub(crate) entries: HashMap<M, VClock<A>>,
    pub(crate) deferred: HashMap<VClock<A>, HashSet<M>>,
}

/// Op's define an edit to an Orswot, Op's must be replayed in the exact order
/// they were produced to guarantee convergence.
///
/// Op's are idempotent, that is, applying an Op twice will not have an effect
#[derive(Clone, PartialEq, Eq, Hash, Serialize, Deserialize)]
pub enum Op<M, A: Ord> {
    /// Add members to the set
    Add {
        /// witnessing dot
        dot: Dot<A>,
        /// Members to add
        members: Vec<M>,
    },
    /// Remove member from the set
    Rm {
        /// witnessing clock
        clock: VClock<A>,
        /// Members to remove
        members: Vec<M>,
    },
}

impl<M: Hash + Eq, A: Ord + Hash> Default for Orswot<M, A> {
    fn default() -> Self {
        Orswot {
            clock: Default::default(),
            entries: Default::default(),
            deferred: Default::default(),
        }
    }
}

impl<M: Hash + Clone + Eq, A: Ord + Hash + Clone + Debug> CmRDT for Orswot<M, A> {
    type Op = Op<M, A>;
    type Validation = <VClock<A> as CmRDT>::Validation;

    fn validate_op(&self, op: &Self::Op) -> Result<(), Self::Validation> {
        match op {
            Op::Add { dot, .. } => self.clock.validate_op(dot),
            Op::Rm { .. } => Ok(()),
        }
    }

    fn apply(&mut self, op: Self::Op) {
        match op {
            Op::Add { dot, members } => {
                if self.clock.get(&dot.actor) >= dot.counter {
                    // we've already seen this op
                    return;
                }

                for member in members {
                    let member_vclock = self.entries.entry(member).or_default();
                    member_vclock.apply(dot.clone());
                }

                self.clock.apply(dot);
                self.apply_deferred();
            }
            Op::Rm { clock, members } => {
                self.apply_rm(members.into_iter().collect(), clock);
            }
        }
    }
}

/// The variations that an ORSWOT may fail validation.
#[derive(Debug, PartialEq, Eq)]
pub enum Validation<M, A> {
    /// We've detected that two different members were inserted with the same dot.
    /// This can break associativity.
    DoubleSpentDot {
        /// The dot that was double spent
        dot: Dot<A>,
        /// Our member inserted with this dot
        our_member: M,
        /// Their member inserted with this dot
        their_member: M,
    },
}

impl<M: Debug, A: Debug> Display for Validation<M, A> {
    fn fmt(&self, f: &mut std::fmt::Formatter<'_>) -> std::fmt::Result {
        Debug::fmt(&self, f)
    }
}

impl<M: Debug, A: Debug> std::error::Error for Validation<M, A> {}

impl<M: Hash + Eq + Clone + Debug, A: Ord + Hash + Clone + Debug> CvRDT for Orswot<M, A> {
    type Validation = Validation<M, A>;

    fn validate_merge(&self, other: &Self) -> Result<(), Self::Validation> {
        for (member, clock) in self.entries.iter() {
            for (other_member, other_clock) in other.entries.iter() {
                for Dot { actor, counter } in clock.iter() {
                    if other_member != member && other_clock.get(actor) == counter {
                        return Err(Validation::DoubleSpentDot {
                            dot: Dot::new(actor.clone(), counter),
                            our_member: member.clone(),
                            their_member: other_member.clone(),
                        });
                    }
                }
            }
        }

        Ok(())
    }

    /// Merge combines another `Orswot` with this one.
    fn merge(&mut self, other: Self) {
        self.entries = mem::take(&mut self.entries)
            .into_iter()
            .filter_map(|(entry, mut clock)| {
                if !other.entries.contains_key(&entry) {
                    // other doesn't contain this entry because it:
                    //  1. has seen it and dropped it
                    //  2. hasn't seen it
                    if other.clock >= clock {
                        // other has seen this entry and dropped it
                        None
                    } else {
                        // the other map has not seen this version of this
                        // entry, so add it. But first, we have to remove any
                        // information that may have been known at some point
                        // by the other map about this key and was removed.
                        clock.reset_remove(&other.clock);
                        Some((entry, clock))
                    }
                } else {
                    Some((entry, clock))
                }
            })
            .collect();

        for (entry, mut clock) in other.entries {
            if let Some(our_clock) = self.entries.get_mut(&entry) {
                // SUBTLE: this entry is present in both orswots, BUT that doesn't mean we
                // shouldn't drop it!
                // Perfectly possible that an item in both sets should be dropped
                let mut common = VClock::intersection(&clock, our_clock);
                common.merge(clock.clone_without(&self.clock));
                common.merge(our_clock.clone_without(&other.clock));
                if common.is_empty() {
                    // both maps had seen each others entry and removed them
                    self.entries.remove(&entry).unwrap();
                } else {
                    // we should not drop, as there is information still tracked in
                    // the common clock.
                    *our_clock = common;
                }
            } else {
                // we don't have this entry, is it because we:
                //  1. have seen it and dropped it
                //  2. have not seen it
                if self.clock >= clock {
                    // We've seen this entry and dropped it, we won't add it back
                } else {
                    // We have not seen this version of this entry, so we add it.
                    // but first, we have to remove the information on this entry
                    // that we have seen and deleted
                    clock.reset_remove(&self.clock);
                    self.entries.insert(entry, clock);
                }
            }
        }

        // merge deferred removals
        for (rm_clock, members) in other.deferred {
            self.apply_rm(members, rm_clock);
        }

        self.clock.merge(other.clock);

        self.apply_deferred();
    }
}

impl<M: Hash + Clone + Eq, A: Ord + Hash> ResetRemove<A> for Orswot<M, A> {
    fn reset_remove(&mut self, clock: &VClock<A>) {
        self.clock.reset_remove(clock);

        self.entries = mem::take(&mut self.entries)
            .into_iter()
            .filter_map(|(val, mut val_clock)| {
                val_clock.reset_remove(clock);
                if val_clock.is_empty() {
                    None
                } else {
                    Some((val, val_clock))
                }
            })
            .collect();

        let mut deferred: HashMap<VClock<A>, HashSet<M>> = HashMap::new();
        for (mut vclock, members) in mem::take(&mut self.deferred) {
            vclock.reset_remove(clock);
            if !vclock.is_empty() {
                // two deferred removes may end up with the same clock: keep the members of both
                deferred.entry(vclock).or_default().extend(members);
            }
        }
        self.deferred = deferred;
    }
}

impl<M: Hash + Clone + Eq, A: Ord + Hash + Clone> Orswot<M, A> {
    /// Returns a new `Orswot` instance.
    pub fn new() -> Self {
        Default::default()
    }

    /// Return a snapshot of the ORSWOT clock
    pub fn clock(&self) -> VClock<A> {
        self.clock.clone()
    }

    /// Add a single element.
    pub fn add(&self, member: M, ctx: AddCtx<A>) -> Op<M, A> {
        Op::Add {
            dot: ctx.dot,
            members: std::iter::once(member).collect(),
        }
    }

    /// Add multiple elements.
    pub fn add_all<I: IntoIterator<Item = M>>(&self, members: I, ctx: AddCtx<A>) -> Op<M, A> {
        Op::Add {
            dot: ctx.dot,
            members: members.into_iter().collect(),
        }
    }

    /// Remove a member with a witnessing ctx.
    pub fn rm(&self, member: M, ctx: RmCtx<A>) -> Op<M, A> {
        Op::Rm {
            clock: ctx.clock,
            members: std::iter::once(member).collect(),
        }
    }

    /// Remove members with a witnessing ctx.
    pub fn rm_all<I: IntoIterator<Item = M>>(&self, members: I, ctx: RmCtx<A>) -> Op<M, A> {
        Op::Rm {
            clock: ctx.clock,
            members: members.into_iter().collect(),
        }
    }

    /// Remove members using a witnessing clock.
    fn apply_rm(&mut self, members: HashSet<M>, clock: VClock<A>) {
        for member in members.iter() {
            if let Some(member_clock) = self.entries.get_mut(member) {
                member_clock.reset_remove(&clock);
                if member_clock.is_empty() {
                    self.entries.remove(member);
                }
            }
        }

        match clock.partial_cmp(&self.clock) {
            None | Some(Ordering::Greater) => {
                if let Some(existing_deferred) = self.deferred.get_mut(&clock) {
                    existing_deferred.extend(members);
                } else {
                    self.deferred.insert(clock, members);
                }
            }
            _ => { /* we've already seen this remove */ }
        }
    }

    /// Check if the set contains a member
    pub fn contains(&self, member: &M) -> ReadCtx<bool, A> {
        let member_clock_opt = self.entries.get(member);
        let exists = member_clock_opt.is_some();
        ReadCtx {
            add_clock: self.clock.clone(),
            rm_clock: member_clock_opt.cloned().unwrap_or_default(),
            val: exists,
        }
    }

    /// Gets an iterator over the entries of the `Map`.
    ///
    /// # Examples
    ///
    /// ```rust
    /// use crdts::{Orswot, CmRDT};
    ///
    /// let actor = "actor";
    ///
    /// let mut set: Orswot<u8, &'static str> = Default::default();
    ///
    /// let add_ctx = set.read_ctx().derive_add_ctx(actor);
    /// set.apply(set.add(100, add_ctx));
    ///
    /// let add_ctx = set.read_ctx().derive_add_ctx(actor);
    /// set.apply(set.add(50, add_ctx));
    ///
    /// let mut items: Vec<_> = set
    ///     .iter()
    ///     .map(|item_ctx| *item_ctx.val)
    ///     .collect();
    ///
    /// items.sort();
    ///
    /// assert_eq!(items, &[50, 100]);
    /// ```
    pub fn iter(&self) -> impl Iterator<Item = ReadCtx<&M, A>> {
        self.entries.iter().map(move |(m, clock)| ReadCtx {
            add_clock: self.clock.clone(),
            rm_clock: clock.clone(),
            val: m,
        })
    }

    /// Retrieve the current members.
    pub fn read(&self) -> ReadCtx<HashSet<M>, A> {
        ReadCtx {
            add_clock: self.clock.clone(),
            rm_clock: self.clock.clone(),
            val: self.entries.keys().cloned().collect(),
        }
    }

    /// Retrieve the current read context
    pub fn read_ctx(&self) -> ReadCtx<(), A> {
        ReadCtx {
            add_clock: self.clock.clone(),
            rm_clock: self.clock.clone(),
            val: (),
        }
    }

    fn apply_deferred(&mut self) {
        let deferred = mem::take(&mut self.deferred);
        for (clock, entries) in deferred.into_iter() {
            self.apply_rm(entries, clock)
        }
    }
}

#[cfg(feature = "quickcheck")]
use quickcheck::{Arbitrary, Gen};

#[cfg(feature = "quickcheck")]
impl<A: Ord + Hash + Arbitrary + Debug, M: Hash + Eq + Arbitrary> Arbitrary for Op<M, A> {
    fn arbitrary(g: &mut Gen) -> Self {
        let dot = Dot::arbitrary(g);
        let clock = VClock::arbitrary(g);

        let mut members_set = HashSet::new();
        for _ in 0..u8::arbitrary(g) % 10 {
            members_set.insert(M::arbitrary(g));
        }
        let members: Vec<_> = members_set.into_iter().collect();

        match u8::arbitrary(g) % 2 {
            0 => Op::Add { members, dot },
            1 => Op::Rm { members, clock },
            _ => panic!("tried to generate invalid op"),
        }
    }

    fn shrink(&self) -> Box<dyn Iterator<Item = Self>> {
        let mut shrunk_ops = Vec::new();
        match self {
            Op::Add { members, dot } => {
                for (i, _m) in members.iter().enumerate() {
                    let mut shrunk_members = members.clone();
                    shrunk_members.remove(i);

                    shrunk_ops.push(Op::Add {
                        members: shrunk_members,
                        dot: dot.clone(),
                    });
                }

                dot.shrink().for_each(|shrunk_dot| {
                    shrunk_ops.push(Op::Add {
                        members: members.clone(),
                        dot: shrunk_dot,
                    })
                });
            }
            Op::Rm { members, clock } => {
                for (i, _m) in members.iter().enumerate() {
                    let mut shrunk_members = members.clone();
                    shrunk_members.remove(i);

                    shrunk_ops.push(Op::Rm {
                        members: shrunk_members,
                        clock: clock.clone(),
                    });
                }

                clock.shrink().for_each(|shrunk_clock| {
                    shrunk_ops.push(Op::Rm {
                        members: members.clone(),
                        clock: shrunk_clock,
                    })
                });
            }
        }

        Box::new(shrunk_ops.into_iter())
    }
}

impl<M: Debug, A: Ord + Hash + Debug> Debug for Op<M, A> {
    fn fmt(&self, f: &mut std::fmt::Formatter<'_>) -> std::fmt::Result {
        match self {
            Op::Add { dot, members } => write!(f, "Add({:?}, {:?})", dot, members),
            Op::Rm { clock, members } => write!(f, "Rm({:?}, {:?})", clock, members),
        }
    }
}

#[cfg(test)]
mod tests {
    use super::*;

    #[test]
    // a bug found with rust quickcheck where deferred operations
    // are not carried over after a merge.
    // symptoms:
    //  if nothing is added, it works
    //  if removed elem is added first, it only misses one
    //  if non-related elem is added, it misses both
    fn ensure_deferred_merges() {
        let mut a = Orswot::new();
        let mut b = Orswot::new();

        b.apply(b.add("element 1", b.read().derive_add_ctx("A")));

        // remove with a future context
        b.apply(b.rm(
            "element 1",
            RmCtx {
                clock: Dot::new("A", 4).into(),
            },
        ));

        a.apply(a.add("element 4", a.read().derive_add_ctx("B")));

        // remove with a future context
        b.apply(b.rm(
            "element 9",
            RmCtx {
                clock: Dot::new("C", 4).into(),
            },
        ));

        let mut merged = Orswot::new();
        merged.merge(a);
        merged.merge(b);
        merged.merge(Orswot::new());
        assert_eq!(merged.deferred.len(), 2);
    }

    // a bug found with rust quickcheck where deferred removals
    // were not properly preserved across merges.
    #[test]
    fn preserve_deferred_across_merges() {
        let mut a = Orswot::new();
        let mut b = a.clone();
        let mut c = a.clone();

        // add element 5 from witness 1
        a.apply(a.add(5, a.read().derive_add_ctx("A")));

        // on another clock, remove 5 with an advanced clock for witnesses A and B
        let mut vc = VClock::new();
        vc.apply(Dot::new("A", 3));
        vc.apply(Dot::new("B", 8));

        // remove from b (has not yet seen add for 5) with advanced ctx
        b.apply(b.rm(5, RmCtx { clock: vc }));
        assert_eq!(b.deferred.len(), 1);

        // ensure that the deferred elements survive across a merge
        c.merge(b);
        assert_eq!(c.deferred.len(), 1);

        // after merging the set with deferred elements with the set that contains
        // an inferior member, ensure that the member is no longer visible and
        // the deferred set still contains this info
        a.merge(c);
        assert!(a.read().val.is_empty());
    }

    // port from riak_dt
    // Bug found by EQC, not dropping dots in merge when an element is
    // present in both Sets leads to removed items remaining after merge.
    #[test]
    fn test_present_but_removed() {
        let mut a = Orswot::new();
        let mut b = Orswot::new();

        a.apply(a.add(0, a.read().derive_add_ctx("A")));

        // Replicate it to C so A has 0->{a, 1}
        let c = a.clone();

        a.apply(a.rm(0, a.contains(&0).derive_rm_ctx()));
        assert_eq!(a.deferred.len(), 0);

        b.apply(b.add(0, b.read().derive_add_ctx("B")));

        // Replicate B to A, so now A has a 0
        // the one with a Dot of {b,1} and clock
        // of [{a, 1}, {b, 1}]
        a.merge(b.clone());

        b.apply(b.rm(0, b.contains(&0).derive_rm_ctx()));

        // Both C and A have a '0', but when they merge, there should be
        // no '0' as C's has been removed by A and A's has been removed by
        // C.
        a.merge(b);
        a.merge(c);
        assert!(a.read().val.is_empty());
    }
}
