//! # GList - Grow-only List CRDT

use core::convert::Infallible;
use core::fmt;
use core::iter::FromIterator;
use core::ops::Bound::*;
use std::collections::BTreeSet;

use serde::{Deserialize, Serialize};

use crate::{CmRDT, CvRDT, Identifier};

/// Operations that can be performed on a List
#[derive(Debug, Clone, PartialEq, Eq, Hash, Serialize, Deserialize)]
pub enum Op<T> {
    /// Insert an element.
    Insert {
        /// The element identifier to insert.
        id: Identifier<T>,
    },
}

/// The GList is a grow-only list, that is, it allows inserts but not deletes.
/// Elements in the list are paths through an ordered tree, the tree grows deeper
/// when we try to insert between two elements who were inserted concurrently and
/// whose paths happen to have the same prefix.
#[derive(Debug, Clone, PartialEq, Eq, Hash, Serialize, Deserialize)]
#[serde(transparent)]
pub struct GList<T: Ord> {
    list: BTreeSet<Identifier<T>>,
}

impl<T: fmt::Display + Ord> fmt::Display for GList<T> {
    fn fmt(&self, f: &mut fmt::Formatter<'_>) -> fmt::Result {
        write!(f, "GList[")?;
        let mut iter = self.list.iter();
        if let Some(e) = iter.next() {
            write!(f, "{}", e)?;
        }
        for e in iter {
            write!(f, "{}", e)?;
        }
        write!(f, "]")
    }
}

impl<T: Ord> Default for GList<T> {
    fn default() -> Self {
        Self {
            list: Default::default(),
        }
    }
}

impl<T: Ord + Clone> GList<T> {
    /// Create an empty GList
    pub fn new() -> Self {
        Self::default()
    }

    /// Read the elements of the list into a user defined container
    pub fn read<'a, C: FromIterator<&'a T>>(&'a self) -> C {
        self.list.iter().map(|id| id.value()).collect()
    }

    /// Read the elements of the list into a user defined container, consuming the list in the process.
    pub fn read_into<C: FromIterator<T>>(self) -> C {
        self.list.into_iter().map(|id| id.into_value()).collect()
    }

    /// Iterate over the elements of the list
    pub fn iter(&self) -> std::collections::btree_set::Iter<Identifier<T>> {
        self.list.iter()
    }

    /// Return the element and it's marker at the specified index
    pub fn get(&self, idx: usize) -> Option<&Identifier<T>> {
        self.list.iter().nth(idx)
    }

    /// Generate an Op to insert the given element at the desired position
    pub fn insert(&self, idx: usize, elem: T) -> Op<T> {
        assert!(idx <= self.len());

        match idx.checked_sub(1).and_then(|i| self.get(i)) {
            Some(prev_idx) => self.insert_after(Some(prev_idx), elem),
            None => self.insert_before(self.get(idx), elem),
        }
    }

    /// Generate an Op to insert the given element before the given marker
    pub fn insert_before(&self, high_id_opt: Option<&Identifier<T>>, elem: T) -> Op<T> {
        let low_id_opt = high_id_opt.and_then(|high_id| {
            self.list
                .range((Unbounded, Excluded(high_id.clone())))
                .rev()
                .find(|id| id < &high_id)
        });
        let id = Identifier::between(low_id_opt, high_id_opt, elem);
        Op::Insert { id }
    }

    /// Generate an insert op to insert the given element after the given marker
    pub fn insert_after(&self, low_id_opt: Option<&Identifier<T>>, elem: T) -> Op<T> {
        let high_id_opt = low_id_opt.and_then(|low_id| {
            self.list
                .range((Excluded(low_id.clone()), Unbounded))
                .find(|id| id > &low_id)
        });
        let id = Identifier::between(low_id_opt, high_id_opt, elem);
        Op::Insert { id }
    }

    /// Get the length of the list.
    pub fn len(&self) -> usize {
        self.list.len()
    }

    /// Check if the list is empty.
    pub fn is_empty(&self) -> bool {
        self.list.is_empty()
    }

    /// Get first element of the sequence represented by the list.
    pub fn first(&self) -> Option<&Identifier<T>> {
        self.iter().next()
    }

    /// Get last element of the sequence represented by the list.
    pub fn last(&self) -> Option<&Identifier<T>> {
        self.iter().next_back()
    }
}

impl<T: Ord> CmRDT for GList<T> {
    type Op = Op<T>;
    type Validation = Infallible;

    fn validate_op(&self, _: &Self::Op) -> Result<(), Self::Validation> {
        Ok(())
    }

    fn apply(&mut self, op: Self::Op) {
        match op {
            Op::Insert { id } => self.list.insert(id),
        };
    }
}

impl<T: Ord> CvRDT for GList<T> {
    type Validation = Infallible;

    fn validate_merge(&self, _: &Self) -> Result<(), Self::Validation> {
        Ok(())
    }

    fn merge(&mut self, other: Self) {
        self.list.extend(other.list)
    }
}

#[cfg(feature = "quickcheck")]
use quickcheck::{Arbitrary, Gen};

#[cfg(feature = "quickcheck")]
impl<T: Arbitrary> Arbitrary for Op<T> {
    fn arbitrary(g: &mut Gen) -> Self {
        let id = Identifier::arbitrary(g);
        Op::Insert { id }
    }
}
