use crate::traits::{CmRDT, CvRDT};
use serde::{Deserialize, Serialize};
use std::convert::Infallible;

/// `MaxReg` Holds a monotonically increasing value that implements the Ord trait. For use of floating-point values,
/// you must create a wrapper (or use a crate like `float-ord`)
/// For modelling as a `CvRDT`:
/// ```rust
/// use crdts::{CvRDT,MaxReg};
/// let mut a = MaxReg{ val: 3 };
/// let b = MaxReg{ val: 2 };
///
/// a.merge(b);
/// assert_eq!(a.val, 3);
/// ```
/// and `CmRDT`:
/// ```rust
/// use crdts::{CmRDT, MaxReg};
/// let mut a = MaxReg{ val: 3 };
/// let b = 2;
/// a.apply(b);
/// assert_eq!(a.val, 3);
/// ```
#[derive(Debug, Clone, PartialEq, Eq, Hash, Serialize, Deserialize)]
pub struct MaxReg<V> {
    /// `val` is the opaque element contained within this CRDT
    /// Because `val` is monotonic, it also serves as a marker and preserves causality
    pub val: V,
}

impl<V: Default> Default for MaxReg<V> {
    fn default() -> Self {
        Self { val: V::default() }
    }
}

impl<V: Ord> CvRDT for MaxReg<V> {
    /// Validates whether a merge is safe to perfom (it always is)
    type Validation = Infallible;

    /// Always returns Ok(()) since a validation error is Infallible
    fn validate_merge(&self, _other: &Self) -> Result<(), Self::Validation> {
        Ok(())
    }

    /// Combines two `MaxReg` instances according to the value that is greatest
    fn merge(&mut self, MaxReg { val }: Self) {
        self.update(val)
    }
}

impl<V: Ord> CmRDT for MaxReg<V> {
    // MaxRegs's are small enough that we can replicate
    // the entire state as an Op
    type Op = V;

    // No operation is invalid so we can safely return `Ok(())`
    type Validation = Infallible;

    /// Just returns Ok(())
    fn validate_op(&self, _op: &Self::Op) -> Result<(), Self::Validation> {
        Ok(())
    }

    /// Applies an operation to a MaxReg CmRDT
    fn apply(&mut self, op: Self::Op) {
        // Since type Op = V, we need to wrap MaxReg around op.
        // If more fields are added to the MaxReg struct, change Op to Self
        self.update(op)
    }
}

impl<V: Ord> MaxReg<V> {
    /// Constructs a MaxReg initialized with the specified value `val`.
    pub fn new(&mut self, val: V) -> Self {
        MaxReg { val }
    }

    /// Updates the value of the MaxReg. `val` is always monotonically increasing.
    pub fn update(&mut self, val: V) {
        if val > self.val {
            self.val = val
        }
    }

    /// Generates a write op (i.e: a val: V)
    pub fn write(&self, val: V) -> <MaxReg<V> as CmRDT>::Op {
        val
    }

    /// Reads the current value of the register.
    pub fn read(&self) -> &V {
        &self.val
    }
}

#[cfg(test)]
mod test {
    use super::*;

    #[test]
    /// TODO: I feel like the default should be -Inf??
    fn test_default() {
        let reg = MaxReg::default();
        assert_eq!(reg, MaxReg { val: 0 });
    }

    #[test]
    fn test_update() {
        // Create a `MaxReg` with initial value of 1
        let mut reg = MaxReg { val: 1 };
        reg.update(2);

        // normal update: the value of the register increases to some other value
        // EXPECTED: success, the val is updated since the current value of the register is less than 2
        assert_eq!(reg, MaxReg { val: 2 });

        // stale update: the value of the register is greater than the incoming one
        // EXPECTED: success, the val is not updated since the current value is already greater than 1
        reg.update(1);
        assert_eq!(reg, MaxReg { val: 2 });

        // Idempotency: Applying the same update is a no-op
        // EXPECTED: success, the val is still equal to 2 because 2 ≯ 2
        reg.update(2);
        assert_eq!(reg, MaxReg { val: 2 });

        // Test validate_op and validate_merge returns Ok(())
        // EXPECTED: success, the validation callers only return Ok(())
        let op = reg.write(3);
        assert_eq!(reg.validate_op(&op), Ok(()));

        let other = MaxReg { val: 4 };
        assert_eq!(reg.validate_merge(&other), Ok(()));
    }
    #[test]
    fn test_read() {
        // Create a `MaxReg` with initial value of 1
        let reg = MaxReg { val: 1 };
        let val = reg.read();
        assert_eq!(*val, reg.val);
    }

    #[test]
    fn test_write() {
        // Create a `MinReg` with initial value of 6
        let a = MaxReg { val: 6 };

        // Create a `MinReg` with initial value of 5
        let mut b = MaxReg { val: 5 };

        // Create a write op:
        let op = b.write(a.val);

        // Apply the op:
        b.apply(op);

        assert_eq!(b.val, 6);
    }
}
