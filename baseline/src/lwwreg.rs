use std::{error, fmt};

use serde::{Deserialize, Serialize};

use crate::{CmRDT, CvRDT};

/// `LWWReg` is a simple CRDT that contains an arbitrary value
/// along with an `Ord` that tracks causality. It is the responsibility
/// of the user to guarantee that the source of the causal element
/// is monotonic. Don't use timestamps unless you are comfortable
/// with divergence.
///
/// `M` is a marker. It must grow monotonically *and* must be globally unique
#[derive(Debug, Clone, PartialEq, Eq, Hash, Serialize, Deserialize)]
pub struct LWWReg<V, M> {
    /// `val` is the opaque element contained within this CRDT
    pub val: V,
    /// `marker` should be a monotonic value associated with this val
    pub marker: M,
}

impl<V: Default, M: Default> Default for LWWReg<V, M> {
    fn default() -> Self {
        Self {
            val: V::default(),
            marker: M::default(),
        }
    }
}

/// The Type of validation errors that may occur for an LWWReg.
#[derive(Debug, PartialEq)]
pub enum Validation {
    /// A conflicting change to a CRDT is witnessed by a dot that already exists.
    ConflictingMarker,
}

impl error::Error for Validation {
    fn description(&self) -> &str {
        match self {
            Validation::ConflictingMarker => {
                "A marker must be used exactly once, re-using the same marker breaks associativity"
            }
        }
    }
}

impl fmt::Display for Validation {
    fn fmt(&self, f: &mut fmt::Formatter) -> fmt::Result {
        write!(f, "{:?}", self)
    }
}

impl<V: PartialEq, M: Ord> CvRDT for LWWReg<V, M> {
    type Validation = Validation;

    /// Validates whether a merge is safe to perfom
    ///
    /// Returns an error if the marker is identical but the
    /// contained element is different.
    /// ```
    /// use crdts::{lwwreg, LWWReg, CvRDT};
    /// let mut l1 = LWWReg { val: 1, marker: 2 };
    /// let l2 = LWWReg { val: 3, marker: 2 };
    /// // errors!
    /// assert_eq!(l1.validate_merge(&l2), Err(lwwreg::Validation::ConflictingMarker));
    /// ```
    fn validate_merge(&self, other: &Self) -> Result<(), Self::Validation> {
        self.validate_update(&other.val, &other.marker)
    }

    /// Combines two `LWWReg` instances according to the marker that
    /// tracks causality.
    fn merge(&mut self, LWWReg { val, marker }: Self) {
        self.update(val, marker)
    }
}

impl<V: PartialEq, M: Ord> CmRDT for LWWReg<V, M> {
    // LWWReg's are small enough that we can replicate
    // the entire state as an Op
    type Op = Self;
    type Validation = Validation;

    fn validate_op(&self, op: &Self::Op) -> Result<(), Self::Validation> {
        self.validate_update(&op.val, &op.marker)
    }

    fn apply(&mut self, op: Self::Op) {
        self.merge(op)
    }
}

impl<V: PartialEq, M: Ord> LWWReg<V, M> {
    /// Construct a new LwwReg initialized with the given value and marker
    pub fn new(val: V, marker: M) -> Self {
        LWWReg { val, marker }
    }

    /// Updates value witnessed by the given marker.
    ///
    /// ```
    /// use crdts::LWWReg;
    /// let mut reg = LWWReg { val: 1, marker: 2 };
    ///
    /// // updating with a smaller marker is a no-op
    /// reg.update(2, 1);
    /// assert_eq!(reg.val, 1);
    ///
    /// // updating with larger marker succeeds
    /// reg.update(2, 3);
    /// assert_eq!(reg, LWWReg { val: 2, marker: 3 });
    /// ```
    pub fn update(&mut self, val: V, marker: M) {
        if self.marker < marker {
            self.val = val;
            self.marker = marker;
        }
    }

    /// An update is invalid if the marker is exactly the same as
    /// the current marker BUT the value is different:
    /// ```
    /// use crdts::{lwwreg, LWWReg};
    /// let mut reg = LWWReg { val: 1, marker: 2 };
    ///
    /// // updating with a smaller marker is a no-op
    /// assert_eq!(reg.validate_update(&32, &2), Err(lwwreg::Validation::ConflictingMarker));
    /// ```
    pub fn validate_update(&self, val: &V, marker: &M) -> Result<(), Validation> {
        if &self.marker == marker && val != &self.val {
            Err(Validation::ConflictingMarker)
        } else {
            Ok(())
        }
    }
}

#[cfg(test)]
mod test {
    use super::*;

    #[test]
    fn test_default() {
        let reg = LWWReg::default();
        assert_eq!(reg, LWWReg { val: "", marker: 0 });
    }

    #[test]
    fn test_update() {
        let mut reg = LWWReg {
            val: 123,
            marker: 0,
        };

        // normal update: new marker is a descended of current marker
        // EXPECTED: success, the val and marker are update
        reg.update(32, 2);
        assert_eq!(reg, LWWReg { val: 32, marker: 2 });

        // stale update: new marker is an ancester of the current marker
        // EXPECTED: succes, no-op
        reg.update(57, 1);
        assert_eq!(reg, LWWReg { val: 32, marker: 2 });

        // redundant update: new marker and val is same as of the current state
        // EXPECTED: success, no-op
        reg.update(32, 2);
        assert_eq!(reg, LWWReg { val: 32, marker: 2 });

        // bad update: new marker same as of the current marker but not value
        // EXPECTED: error
        assert_eq!(
            reg.validate_update(&4000, &2),
            Err(Validation::ConflictingMarker)
        );

        // Applying the update despite the validation error is a no-op
        reg.update(4000, 2);
        assert_eq!(reg, LWWReg { val: 32, marker: 2 });
    }

    #[cfg(feature = "quickcheck")]
    mod prop_tests {
        use super::*;
        use quickcheck::TestResult;
        use quickcheck_macros::quickcheck;

        #[quickcheck]
        fn prop_associative(
            r1_prim: (u8, u16),
            r2_prim: (u8, u16),
            r3_prim: (u8, u16),
        ) -> TestResult {
            let mut r1 = build_from_prim(r1_prim);
            let mut r2 = build_from_prim(r2_prim);
            let r3 = build_from_prim(r3_prim);

            let has_conflicting_marker = (r1.marker == r2.marker && r1.val != r2.val)
                || (r1.marker == r3.marker && r1.val != r3.val)
                || (r2.marker == r3.marker && r2.val != r3.val);

            if has_conflicting_marker {
                return TestResult::discard();
            }

            let mut r1_snapshot = r1.clone();

            // (r1 ^ r2) ^ r3
            r1.merge(r2.clone());
            r1.merge(r3.clone());

            // r1 ^ (r2 ^ r3)
            r2.merge(r3);
            r1_snapshot.merge(r2);

            // (r1 ^ r2) ^ r3 = r1 ^ (r2 ^ r3)
            TestResult::from_bool(r1 == r1_snapshot)
        }

        #[quickcheck]
        fn prop_commutative(r1_prim: (u8, u16), r2_prim: (u8, u16)) -> TestResult {
            let mut r1 = build_from_prim(r1_prim);
            let mut r2 = build_from_prim(r2_prim);

            if r1.marker == r2.marker && r1.val != r2.val {
                return TestResult::discard();
            }
            let r1_snapshot = r1.clone();

            // r1 ^ r2
            r1.merge(r2.clone());

            // r2 ^ r1
            r2.merge(r1_snapshot);

            // r1 ^ r2 = r2 ^ r1
            TestResult::from_bool(r1 == r2)
        }

        #[quickcheck]
        fn prop_idempotent(r_prim: (u8, u16)) -> bool {
            let mut r = build_from_prim(r_prim);
            let r_snapshot = r.clone();

            // r ^ r
            r.merge(r_snapshot.clone());
            // r ^ r = r
            r == r_snapshot
        }

        fn build_from_prim(prim: (u8, u16)) -> LWWReg<u8, (u16, u8)> {
            // we make the marker a tuple so that we avoid conflicts
            LWWReg {
                val: prim.0,
                marker: (prim.1, prim.0),
            }
        }
    }
}
